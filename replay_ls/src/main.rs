//! Native replay of counterexamples against harper-ls's `DocumentState` (compiled in from /repo).
#![allow(dead_code, unused_imports)]

#[path = "/repo/harper-ls/src/config.rs"]
mod config;
#[path = "/repo/harper-ls/src/diagnostics.rs"]
mod diagnostics;
#[path = "/repo/harper-ls/src/document_state.rs"]
mod document_state;
#[path = "/repo/harper-ls/src/pos_conv.rs"]
mod pos_conv;

use harper_core::linting::{Lint, LintGroup, LintKind, Linter, Suggestion};
use harper_core::{Document, MutableDictionary, Span};
use tower_lsp::lsp_types::{Position, Range};

/// A linter that reports exactly the lints it was given.
struct StubLinter(Vec<Lint>);

impl Linter for StubLinter {
    fn lint(&mut self, _document: &Document) -> Vec<Lint> {
        self.0.clone()
    }
    fn description(&self) -> &str {
        "reports the lints of a counterexample"
    }
}

fn main() {
    let args: Vec<String> = std::env::args().collect();
    match args.get(1).map(|s| s.as_str()) {
        Some("codeactions") => std::process::exit(code_actions_case(&args[2], &args[3], &args[4])),
        Some("edit") => std::process::exit(edit_case(&args[2], &args[3], &args[4], args.get(5).map(|s| s.as_str()).unwrap_or(""))),
        _ => {
            eprintln!("usage: replay_ls codeactions <code points, comma separated> <s,e,prio;s,e,prio;...> <char index>");
            std::process::exit(2)
        }
    }
}

/// C08: a document whose linter reports the given lints. Every lint is published as a diagnostic, and a code-action
/// request at the LSP position of character `k` offers the fix of exactly the lints whose span contains `k`.
fn code_actions_case(code_points: &str, lints: &str, k: &str) -> i32 {
    let text: String = code_points.split(',').filter(|s| !s.is_empty()).map(|s| char::from_u32(s.parse().unwrap()).unwrap()).collect();
    let chars: Vec<char> = text.chars().collect();
    let k: usize = k.parse().unwrap();
    let lints: Vec<Lint> = lints
        .split(';')
        .filter(|s| !s.is_empty())
        .enumerate()
        .map(|(i, s)| {
            let v: Vec<usize> = s.split(',').map(|x| x.parse().unwrap()).collect();
            Lint {
                span: Span::new(v[0], v[1]),
                lint_kind: LintKind::Miscellaneous,
                suggestions: vec![Suggestion::ReplaceWith(format!("L{i}").chars().collect())],
                message: format!("lint {i}"),
                priority: v[2] as u8,
            }
        })
        .collect();
    let mut group = LintGroup::empty();
    group.add("Counterexample", Box::new(StubLinter(lints.clone())));
    group.config.set_rule_enabled("Counterexample", true);
    let mut state = document_state::DocumentState {
        document: Document::new_plain_english(&text, &MutableDictionary::new()),
        linter: group,
        ..Default::default()
    };
    // the LSP position of character k (independent of pos_conv): lines end at '\n', columns count UTF-16 units
    let line = chars[..k].iter().filter(|c| **c == '\n').count();
    let line_start = chars[..k].iter().rposition(|c| *c == '\n').map(|i| i + 1).unwrap_or(0);
    let col: usize = chars[line_start..k].iter().map(|c| c.len_utf16()).sum();
    let pos = Position { line: line as u32, character: col as u32 };
    let diagnostics = state.generate_diagnostics(config::DiagnosticSeverity::Hint);
    let actions = state.generate_code_actions(Range { start: pos, end: pos }, &config::CodeActionConfig::default());
    let shown: Vec<String> = actions.iter().map(|a| format!("{a:?}")).collect();
    let mut bad = 0;
    if diagnostics.len() != lints.len() {
        println!("VIOLATED: the linter reported {} lints, {} diagnostics are published", lints.len(), diagnostics.len());
        bad = 1;
    }
    for (i, l) in lints.iter().enumerate() {
        let offered = shown.iter().filter(|s| s.contains(&format!("new_text: \"L{i}\""))).count();
        let inside = l.span.start <= k && k < l.span.end;
        if inside && offered != 1 {
            println!("VIOLATED: character {k} ({pos:?}) lies inside lint {i} {:?}, which is published as a diagnostic, but its fix is offered {offered} times there", l.span);
            bad = 1;
        }
        if !inside && offered != 0 {
            println!("VIOLATED: the fix of lint {i} {:?} is offered at character {k} ({pos:?}), which lies outside it", l.span);
            bad = 1;
        }
    }
    println!("text {:?}, lints {:?}, request at char {k} = {pos:?}: {} diagnostics, {} actions", text, lints.iter().map(|l| (l.span.start, l.span.end, l.priority)).collect::<Vec<_>>(), diagnostics.len(), actions.len());
    bad
}


/// C08: the text edit of the quick fix for a lint, applied the way an LSP client does (positions = line / UTF-16 column, by a
/// converter independent of pos_conv), yields what `Suggestion::apply` yields on the lint's span.
/// args: <code points> <start,end> <ReplaceWith|Remove|InsertAfter> <replacement code points>
fn edit_case(code_points: &str, span: &str, kind: &str, with: &str) -> i32 {
    use tower_lsp::lsp_types::{CodeActionOrCommand, Url};
    let cps = |s: &str| -> Vec<char> { s.split(',').filter(|x| !x.is_empty()).map(|x| char::from_u32(x.parse().unwrap()).unwrap()).collect() };
    let chars = cps(code_points);
    let with = cps(with);
    let text: String = chars.iter().collect();
    let v: Vec<usize> = span.split(',').map(|x| x.parse().unwrap()).collect();
    let sug = match kind { "Remove" => Suggestion::Remove, "InsertAfter" => Suggestion::InsertAfter(with.clone()), _ => Suggestion::ReplaceWith(with.clone()) };
    let lint = Lint { span: Span::new(v[0], v[1]), lint_kind: LintKind::Miscellaneous, suggestions: vec![sug.clone()], message: "m".into(), priority: 31 };
    let doc = Document::new_plain_english(&text, &MutableDictionary::new());
    let url = Url::parse("file:///tmp/x.md").unwrap();
    let actions = diagnostics::lint_to_code_actions(&lint, &url, &doc, &config::CodeActionConfig::default());
    let mut want = chars.clone();
    sug.apply(lint.span, &mut want);
    // independent LSP position -> char index
    let to_index = |p: Position| -> usize {
        let (mut line, mut col, mut i) = (0u32, 0u32, 0usize);
        while i < chars.len() {
            if line == p.line && col >= p.character { break; }
            if chars[i] == '\n' { if line == p.line { break; } line += 1; col = 0; } else { col += chars[i].len_utf16() as u32; }
            i += 1;
        }
        i
    };
    let mut bad = 0;
    let mut seen = 0;
    for a in &actions {
        if let CodeActionOrCommand::CodeAction(ca) = a {
            for edits in ca.edit.iter().flat_map(|e| e.changes.iter()).flat_map(|c| c.values()) {
                for e in edits {
                    seen += 1;
                    let (s, t) = (to_index(e.range.start), to_index(e.range.end));
                    let mut got: Vec<char> = chars[..s].to_vec();
                    got.extend(e.new_text.chars());
                    got.extend_from_slice(&chars[t.max(s)..]);
                    if got != want {
                        println!("VIOLATED: text {text:?}, lint {:?}, {kind}: the client obtains {:?}, applying the suggestion gives {:?} (edit {:?} -> {:?})", lint.span, got.iter().collect::<String>(), want.iter().collect::<String>(), e.range, e.new_text);
                        bad = 1;
                    }
                }
            }
        }
    }
    if seen != 1 { println!("VIOLATED: {seen} text edits for one suggestion"); bad = 1; }
    if bad == 0 { println!("ok: quick-fix edit for {kind} on {:?} of {text:?}", lint.span); }
    bad
}

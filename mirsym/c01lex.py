"""C01 - lexers on structured inputs: a concrete prefix (and suffix) with a few fully symbolic characters in between,
executed from MIR. Reaches the sub-lexers (escapes, credentials, ports) at the very end of the slices they are handed.

usage: python3-vt c01lex.py <mir-dump> <lexer> <prefix> <T> <suffix> <repo-src-dir>
"""
import json
import os
import sys
import time
import z3
sys.path.insert(0, os.path.dirname(os.path.abspath(__file__)))
from mir import load_functions, Unsupported
from exec import Explorer, Interp, Int, Adt, Enum, Cell, Ref, Tup, PathEnd, Infeasible
from models import MODELS, VecObj, SliceRef
from adts import load_enums


def run(mir_path, lexer, prefix, T, suffix, src_dir):
    raw = load_functions(mir_path)
    enums = load_enums(src_dir)
    cands = [n for n in raw if (n == lexer or n.endswith("::" + lexer)) and "{closure" not in n]
    if len(cands) != 1:
        raise Unsupported(f"cannot resolve lexer {lexer}: {cands}")
    fn = cands[0]
    L = len(prefix) + T + len(suffix)
    tail = [z3.BitVec(f"t{i}", 32) for i in range(T)]
    ex = Explorer()
    result = {"lexer": lexer, "prefix": prefix, "symbolic_chars": T, "suffix": suffix, "violations": [], "panics": [], "functions": set()}

    def text(model):
        mid = "".join(chr(model.eval(c, model_completion=True).as_long()) for c in tail)
        return prefix + mid + suffix

    nice = [z3.And(z3.UGE(c, 33), z3.ULE(c, 126)) for c in tail]  # prefer printable counterexamples

    def body(ctx):
        for c in tail:
            ctx.assume(z3.And(z3.ULE(c, 0x10FFFF), z3.Or(z3.ULT(c, 0xD800), z3.UGT(c, 0xDFFF))))
        chars = [Int(ord(ch), 32) for ch in prefix] + [Int(c, 32) for c in tail] + [Int(ord(ch), 32) for ch in suffix]
        vec = VecObj(chars)
        it = Interp(raw, MODELS, ctx, {}, enums=enums)
        out = None
        try:
            out = it.call_fn(fn, [SliceRef(vec, 0, L)])
        except (PathEnd, Infeasible):
            pass
        result["functions"] |= it.called
        for msg, where, model in it.panics:
            result["panics"].append({"msg": msg, "where": where, "text": text(model) if model is not None else None})
        if out is not None and out.variant == "Some":
            ni = out.fields[0].fields[0]
            ok, model = ctx.valid(z3.And(z3.UGE(ni.t, 1), z3.ULE(ni.t, L)), nice)
            if not ok:
                result["violations"].append({"what": "next_index outside 1..=len", "text": text(model)})

    t0 = time.time()
    ex.run(body)
    result.update(paths=ex.stats["paths"], solver_queries=ex.stats["queries"], solver_s=round(ex.stats["solver_s"], 3),
                  forks=ex.stats["forks"], wall_s=round(time.time() - t0, 2), functions=sorted(result["functions"]))
    result["violations"] = result["violations"][:5]
    result["panics"] = result["panics"][:5]
    return result


if __name__ == "__main__":
    try:
        r = run(sys.argv[1], sys.argv[2], sys.argv[3], int(sys.argv[4]), sys.argv[5], sys.argv[6])
        r["status"] = "violated" if (r["violations"] or r["panics"]) else "holds"
    except Unsupported as e:
        r = {"status": "unsupported", "why": str(e)}
    print(json.dumps(r))

"""C12 (structural kernel) - iter_chunks / iter_sentences / iter_paragraphs hand rules their clauses,
sentences and paragraphs as a partition of the token list.

Symbolic execution of the real MIR of TokenStringExt::{iter_chunks, iter_sentences, iter_paragraphs}
for [Token] on N tokens whose kinds are chosen from a menu by forking. The returned iterator is
drained; on every path: pieces are non-empty (unless N == 0), contiguous, in order, cover the slice
exactly, every piece but the last ends in its terminator and no terminator sits inside a piece.

usage: python3-vt c12.py <mir-dump> <chunks|sentences|paragraphs> <N> <repo-src-dir>
"""
import json
import os
import sys
import time
import z3
sys.path.insert(0, os.path.dirname(os.path.abspath(__file__)))
from mir import load_functions, Unsupported
from exec import Explorer, Interp, Int, Adt, Enum, Cell, Ref, Tup, PathEnd, Infeasible
from models import MODELS, VecObj, SliceRef, to_iter, as_slice
from adts import load_enums

MENU = ["word", "space", "period", "comma", "quote", "colon", "question", "bang", "pbreak", "hyphen"]
TERM = {
    "paragraphs": {"pbreak"},
    "sentences": {"pbreak", "period", "question", "bang"},
    "chunks": {"pbreak", "period", "question", "bang", "comma", "quote", "colon"},
}


def find_fn(raw, suffix, contains):
    c = [n for n in raw if n.endswith(suffix) and contains in n and "{closure" not in n]
    if len(c) != 1:
        raise Unsupported(f"cannot uniquely resolve MIR function *{suffix}: {c}")
    return c[0]


def run(mir_path, how, n, src_dir):
    raw = load_functions(mir_path)
    enums = load_enums(src_dir)
    fn = find_fn(raw, ">::iter_" + how, "token_string_ext")
    sel = [z3.BitVec(f"k{i}", 8) for i in range(n)]
    ex = Explorer()
    result = {"split": how, "n": n, "violations": [], "panics": [], "functions": set()}
    TK, PU = enums["TokenKind"], enums["Punctuation"]

    def punct(name, fields=()):
        return Enum("Punctuation", TK.index("Punctuation"), [Enum(name, PU.index(name), list(fields))])

    def mk(which):
        return {"word": lambda: Enum("Word", TK.index("Word"), [Enum("None", 0, [])]),
                "space": lambda: Enum("Space", TK.index("Space"), [Int(1)]),
                "period": lambda: punct("Period"), "comma": lambda: punct("Comma"), "colon": lambda: punct("Colon"),
                "question": lambda: punct("Question"), "bang": lambda: punct("Bang"), "hyphen": lambda: punct("Hyphen"),
                "quote": lambda: punct("Quote", [Adt("Quote", [Enum("None", 0, [])])]),
                "pbreak": lambda: Enum("ParagraphBreak", TK.index("ParagraphBreak"), [])}[which]()

    def body(ctx):
        kinds = []
        toks = []
        for i in range(n):
            ctx.assume(z3.ULT(sel[i], len(MENU)))
            k = ctx.choose(sel[i], list(range(len(MENU))))
            kinds.append(MENU[k])
            toks.append(Adt("Token", [Adt("Span", [Int(i), Int(i + 1)]), mk(MENU[k])]))
        vec = VecObj(toks)
        it = Interp(raw, MODELS, ctx, {}, enums=enums)
        pieces = []
        try:
            itobj = it.call_fn(fn, [SliceRef(vec, 0, n)])
            itobj = to_iter(itobj)
            while True:
                x = itobj.next(it)
                if x is None:
                    break
                sl = as_slice(x)
                if sl.vec is not vec:
                    raise Unsupported("piece is not a slice of the input")
                pieces.append((sl.lo, sl.hi))
        except (PathEnd, Infeasible):
            pass
        result["functions"] |= it.called
        for msg, where, model in it.panics:
            result["panics"].append({"msg": msg, "where": where, "kinds": kinds})
        # ---- the partition property (everything is concrete on this path)
        bad = None
        nxt = 0
        term = TERM[how]
        if n == 0:
            if any(hi > lo for lo, hi in pieces):
                bad = "non-empty piece of an empty token list"
        else:
            for idx, (lo, hi) in enumerate(pieces):
                if hi <= lo:
                    bad = "empty piece"
                    break
                if lo != nxt:
                    bad = f"piece {idx} starts at token {lo}, expected {nxt} (tokens skipped or repeated)"
                    break
                if any(kinds[j] in term for j in range(lo, hi - 1)):
                    bad = f"piece {idx} contains a terminator before its end"
                    break
                nxt = hi
                if hi < n and kinds[hi - 1] not in term:
                    bad = f"piece {idx} ends without a terminator although tokens follow"
                    break
            if bad is None and nxt != n:
                bad = f"the pieces cover tokens 0..{nxt} of {n}"
        if bad:
            result["violations"].append({"what": bad, "kinds": kinds, "pieces": pieces})

    t0 = time.time()
    ex.run(body)
    result.update(paths=ex.stats["paths"], solver_queries=ex.stats["queries"], solver_s=round(ex.stats["solver_s"], 3),
                  forks=ex.stats["forks"], wall_s=round(time.time() - t0, 2), functions=sorted(result["functions"]))
    result["violations"] = result["violations"][:5]
    result["panics"] = result["panics"][:5]
    return result


if __name__ == "__main__":
    mirp, how, n, src = sys.argv[1], sys.argv[2], int(sys.argv[3]), sys.argv[4]
    try:
        r = run(mirp, how, n, src)
        r["status"] = "violated" if (r["violations"] or r["panics"]) else "holds"
    except Unsupported as e:
        r = {"status": "unsupported", "why": str(e), "n": n, "split": how}
    print(json.dumps(r))

"""C08 (kernel) - the text edit of a quick fix, applied the way an LSP client does, is the suggestion applied to the lint's span.

MIR symbolic execution of the code that builds a quick fix in harper-ls: the per-suggestion closure of
`diagnostics::lint_to_code_actions` (with the real `pos_conv::span_to_range`, `Span::get_content_string`,
`CharStringExt::to_string`, `format!`) on a document of T fully symbolic characters (line feeds, astral characters) and a
lint with any span inside the text and a suggestion of each kind (`ReplaceWith` / `InsertAfter` with R fully symbolic
characters, `Remove`). `Url`, `serde_json` and `harper_stats::RecordKind` are stubbed (they do not touch the edit).

On every path the `TextEdit` found in the returned `CodeAction` satisfies: its range is the LSP range (line / UTF-16 column by an
independent reference) of exactly the lint's span, and its new text is the replacement (ReplaceWith), empty (Remove), or
the flagged text followed by the insertion (InsertAfter) - so that a client replacing the range by the new text obtains
text[..start] + replacement + text[end..], text[..start] + text[end..], text[..end] + insertion + text[end..] respectively,
which is what `Suggestion::apply` yields (decided separately under C03).

usage: python3-vt c08edit.py <core-mir> <ls-mir> <T> <R> <repo-root>
"""
import json
import os
import sys
import time
import z3
sys.path.insert(0, os.path.dirname(os.path.abspath(__file__)))
from mir import load_functions, Unsupported
from exec import Explorer, Interp, Int, Adt, Enum, Cell, Ref, BoxRef, Tup, PathEnd, Infeasible
from models import MODELS, VecObj, SliceRef, StringObj, as_slice, deref
from adts import load_enums, load_type_names


def find_adt(v, name, seen=None):
    """first Adt called `name` inside a value (depth-first)"""
    seen = seen if seen is not None else set()
    if id(v) in seen:
        return None
    seen.add(id(v))
    if isinstance(v, Ref):
        try:
            return find_adt(v.get(), name, seen)
        except Exception:
            return None
    if isinstance(v, Adt):
        if v.name.split("::")[-1] == name:
            return v
        for f in v.fields:
            r = find_adt(f, name, seen)
            if r is not None:
                return r
    elif isinstance(v, Enum):
        for f in v.fields:
            r = find_adt(f, name, seen)
            if r is not None:
                return r
    elif isinstance(v, Tup):
        for f in v.items:
            r = find_adt(f, name, seen)
            if r is not None:
                return r
    elif isinstance(v, VecObj):
        for c in v.elems:
            r = find_adt(c.v, name, seen)
            if r is not None:
                return r
    elif hasattr(v, "entries"):
        for k, c in v.entries:
            r = find_adt(c.v if isinstance(c, Cell) else c, name, seen)
            if r is not None:
                return r
    return None


def run(core_mir, ls_mir, T, R, repo_root):
    raw = load_functions(core_mir)
    raw.update(load_functions(ls_mir))
    enums = load_enums(os.path.join(repo_root, "harper-core", "src"))
    enums.update({k: v for k, v in load_enums(os.path.join(repo_root, "harper-ls", "src")).items() if k not in enums})
    clos = [n for n in raw if n.startswith("lint_to_code_actions::{closure#")]
    clos = [n for n in clos if "&Suggestion" in raw[n][0][0]]
    if len(clos) != 1:
        raise Unsupported(f"cannot resolve the per-suggestion closure of lint_to_code_actions: {clos}")
    fn = clos[0]
    SG, TK = enums["Suggestion"], enums["TokenKind"]
    chars = [z3.BitVec(f"c{i}", 32) for i in range(T)]
    repl = [z3.BitVec(f"r{i}", 32) for i in range(R)]
    s_sel, e_sel, k_sel = z3.BitVec("start", 8), z3.BitVec("end", 8), z3.BitVec("kind", 8)
    nice = [z3.Or(z3.And(z3.UGE(c, 97), z3.ULE(c, 122)), c == 10) for c in chars + repl]
    ex = Explorer()
    result = {"chars": T, "replacement_chars": R, "violations": [], "panics": [], "functions": set()}

    def refpos(k):
        line, col = z3.BitVecVal(0, 32), z3.BitVecVal(0, 32)
        for c in chars[:k]:
            nl = c == 10
            line = z3.If(nl, line + 1, line)
            col = z3.If(nl, z3.BitVecVal(0, 32), col + z3.If(z3.UGE(c, 0x10000), z3.BitVecVal(2, 32), z3.BitVecVal(1, 32)))
        return line, col

    def body(ctx):
        try:
            body_(ctx)
        except PathEnd:
            pass

    def body_(ctx):
        for c in chars + repl:
            ctx.assume(z3.And(z3.ULE(c, 0x10FFFF), z3.Or(z3.ULT(c, 0xD800), z3.UGT(c, 0xDFFF))))
        ctx.assume(z3.ULE(s_sel, T))
        s0 = ctx.choose(s_sel, list(range(T + 1)))
        ctx.assume(z3.And(z3.UGE(e_sel, s0), z3.ULE(e_sel, T)))
        e0 = ctx.choose(e_sel, list(range(s0, T + 1)))
        ctx.assume(z3.ULT(k_sel, 3))
        kind = ["ReplaceWith", "Remove", "InsertAfter"][ctx.choose(k_sel, [0, 1, 2])]
        src = VecObj([Int(c, 32) for c in chars])
        word = Adt("Token", [Adt("Span", [Int(0), Int(T)]), Enum("Word", TK.index("Word"), [Enum("None", 0, [])])])
        doc = Adt("Document", [Ref(Cell(src)), VecObj([word])])
        sug = Enum(kind, SG.index(kind), [] if kind == "Remove" else [VecObj([Int(c, 32) for c in repl])])
        lint = Adt("Lint", [Adt("Span", [Int(s0), Int(e0)]), Enum("Miscellaneous", enums["LintKind"].index("Miscellaneous"), []),
                            VecObj([sug]), StringObj([Int(109, 32)]), Int(31, 8)])
        resolve = {
            r"^<Suggestion as ToString>::to_string$": lambda it_, c, a: StringObj([Int(116, 32)]),
            r"^<(tower_lsp::lsp_types::)?Url as Clone>::clone$": lambda it_, c, a: Adt("Url", []),
            r"^<(tower_lsp::lsp_types::)?Url as ToString>::to_string$": lambda it_, c, a: StringObj([Int(117, 32)]),
            r"^RecordKind::from_lint$": lambda it_, c, a: Adt("RecordKind", []),
            r"^serde_json::to_string::<": lambda it_, c, a: Enum("Ok", 0, [StringObj([Int(106, 32)])]),
            r"^(serde_json::)?to_value::<": lambda it_, c, a: Enum("Ok", 0, [Adt("Value", [])]),
        }
        it = Interp(raw, MODELS, ctx, resolve, enums=enums)
        it.harper_types = it.harper_types | load_type_names(os.path.join(repo_root, "harper-ls", "src"))
        env = Adt("{closure@lint_to_code_actions}", [SliceRef(src, 0, T), Ref(Cell(lint)), Ref(Cell(Adt("Url", []))), Ref(Cell(doc))])

        def describe(model):
            if model is None:
                return None
            ev = lambda c: model.eval(c, model_completion=True).as_long()
            return {"chars": [ev(c) for c in chars], "text": "".join(chr(ev(c)) for c in chars), "span": [s0, e0], "suggestion": kind,
                    "with": "".join(chr(ev(c)) for c in repl)}

        out = None
        try:
            out = it.call_fn(fn, [Ref(Cell(env)), Ref(Cell(sug))])
        except Infeasible:
            return
        finally:
            result["functions"] |= it.called
            for msg, where, model in it.panics:
                if model is not None and ctx.ex.solver.check(*nice) == z3.sat:
                    model = ctx.ex.solver.model()
                result["panics"].append({"msg": msg, "where": where, "input": describe(model)})
        if it.panics:
            return
        te = find_adt(out, "TextEdit")
        claims = []
        if te is None:
            claims.append((z3.BoolVal(False), "the code action carries no text edit"))
        else:
            rng, new_text = deref(te.fields[0]), deref(te.fields[1])
            (p0, p1) = (deref(rng.fields[0]), deref(rng.fields[1]))
            (l0, c0), (l1, c1) = refpos(s0), refpos(e0)
            claims.append((z3.And(p0.fields[0].t == l0, p0.fields[1].t == c0, p1.fields[0].t == l1, p1.fields[1].t == c1),
                           "the edit's range is not the LSP range of the lint's span"))
            want = {"ReplaceWith": repl, "Remove": [], "InsertAfter": chars[s0:e0] + repl}[kind]
            got = [c.t for c in new_text.chars]
            if len(got) != len(want):
                claims.append((z3.BoolVal(False), f"the edit's new text has {len(got)} characters, expected {len(want)}"))
            else:
                claims.append((z3.And(*[x == y for x, y in zip(got, want)]) if want else z3.BoolVal(True),
                               "the edit's new text is not what applying the suggestion puts in place of the span"))
        for claim, what in claims:
            ok, model = ctx.valid(claim, nice)
            if not ok:
                result["violations"].append({"what": what, "input": describe(model)})
                break

    t0 = time.time()
    ex.run(body)
    result.update(paths=ex.stats["paths"], solver_queries=ex.stats["queries"], solver_s=round(ex.stats["solver_s"], 3),
                  forks=ex.stats["forks"], wall_s=round(time.time() - t0, 2), functions=sorted(result["functions"]))
    seen, uniq = set(), []
    for v in result["violations"]:
        if v["what"] not in seen:
            seen.add(v["what"])
            uniq.append(v)
    result["violations"] = uniq[:5]
    result["panics"] = result["panics"][:5]
    return result


if __name__ == "__main__":
    try:
        r = run(sys.argv[1], sys.argv[2], int(sys.argv[3]), int(sys.argv[4]), sys.argv[5])
        r["status"] = "violated" if (r["violations"] or r["panics"]) else "holds"
    except Unsupported as e:
        r = {"status": "unsupported", "why": str(e)}
    print(json.dumps(r))

"""C05 (kernel) - SpellCheck's suggestion cache is unobservable.

MIR symbolic execution of `SpellCheck::cached_suggest_correct_spelling` called twice on one SpellCheck with two words of
W0 and W1 fully symbolic characters. `suggest_correct_spelling` and the dictionary are stubs: the suggestions for a
word are a deterministic function of exactly that word as written and of the edit-distance budget (nothing up to an
arbitrary, per-word threshold, then the word itself), which is all the cache may rely on. On every path the second
call must return what the stub gives for the second word - whatever word was looked up before; the back-off loop over
the distance budget is executed as compiled.

usage: python3-vt c05spell.py <mir-dump> <W0>x<W1> <repo-src-dir>
"""
import json
import os
import sys
import time
import z3
sys.path.insert(0, os.path.dirname(os.path.abspath(__file__)))
from mir import load_functions, Unsupported
from exec import Explorer, Interp, Int, Adt, Enum, Cell, Ref, Tup, PathEnd, Infeasible
from models import MODELS, VecObj, SliceRef, LruObj, as_slice, deref
from adts import load_enums


def run(mir_path, W, src_dir):
    W0, W1 = W
    raw = load_functions(mir_path)
    enums = load_enums(src_dir)
    cands = [n for n in raw if n.endswith("::cached_suggest_correct_spelling") and "{closure" not in n]
    if len(cands) != 1:
        raise Unsupported(f"cannot resolve cached_suggest_correct_spelling: {cands}")
    fn = cands[0]
    words = [[z3.BitVec(f"w{k}c{i}", 32) for i in range(wl)] for k, wl in enumerate((W0, W1))]
    thr = {wl: z3.Function(f"thr{wl}", *([z3.BitVecSort(32)] * wl + [z3.BitVecSort(8)])) for wl in {W0, W1}}
    nice = [z3.Or(z3.And(z3.UGE(c, 65), z3.ULE(c, 90)), z3.And(z3.UGE(c, 97), z3.ULE(c, 122))) for w in words for c in w]
    ex = Explorer()
    result = {"word_lens": [W0, W1], "violations": [], "panics": [], "functions": set()}
    DI = enums.get("Dialect") or ["American", "British", "Australian", "Canadian"]

    def texts(model):
        return ["".join(chr(model.eval(c, model_completion=True).as_long()) for c in w) for w in words]

    def body(ctx):
        for w in words:
            for c in w:
                ctx.assume(z3.And(z3.UGE(c, 33), z3.ULE(c, 126)))

        def suggest_stub(it, callee, args):
            sl = as_slice(args[0])
            cs = [sl.vec.elems[sl.lo + i].v.t for i in range(len(sl))]
            if len(cs) not in thr:
                raise Unsupported("suggest_correct_spelling called with a word of unexpected length")
            # nothing while the distance budget is below the word's threshold, then one suggestion: the looked-up
            # word itself (a function of exactly the word as written)
            if it.ctx.branch(z3.ULT(args[2].t, thr[len(cs)](*cs))):
                return VecObj([])
            return VecObj([SliceRef(sl.vec, sl.lo, sl.hi)])

        def metadata_stub(it, callee, args):
            wm = Adt("WordMetadata", [Enum("None", 0, [])] * 8 + [z3.BoolVal(False)] * 3 + [Enum("None", 0, [])])
            return Enum("Some", 1, [Ref(Cell(wm))])

        resolve = {r"^suggest_correct_spelling::<": suggest_stub, r" as Dictionary>::get_word_metadata$": metadata_stub}
        it = Interp(raw, MODELS, ctx, resolve, enums=enums)
        sc = Adt("SpellCheck", [Adt("StubDictionary", []), LruObj(), Enum(DI[0], 0, [])])
        cell = Cell(sc)
        outs = []
        try:
            for k in range(2):
                vec = VecObj([Int(c, 32) for c in words[k]])
                outs.append(it.call_fn(fn, [Ref(cell), SliceRef(vec, 0, len(words[k]))]))
        except (PathEnd, Infeasible):
            return
        finally:
            result["functions"] |= it.called
            for msg, where, model in it.panics:
                result["panics"].append({"msg": msg, "where": where, "words": texts(model) if model is not None else None})
        got = outs[1]
        found = z3.ULE(thr[W1](*words[1]), 4)  # the loop tries budgets 2, 3, 4
        if len(got.elems) == 0:
            claim = z3.Not(found)
        elif len(got.elems) == 1:
            sug = as_slice(got.elems[0].v)
            claim = z3.BoolVal(len(sug) == W1)
            if len(sug) == W1:
                claim = z3.And(found, *[sug.vec.elems[sug.lo + i].v.t == words[1][i] for i in range(W1)])
        else:
            claim = z3.BoolVal(False)
        ok, model = ctx.valid(claim, nice)
        if not ok:
            result["violations"].append({"what": "the suggestions for the second word are not those of the second word (the cache leaked an earlier look-up)",
                                         "words": texts(model)})

    t0 = time.time()
    ex.run(body)
    result.update(paths=ex.stats["paths"], solver_queries=ex.stats["queries"], solver_s=round(ex.stats["solver_s"], 3),
                  forks=ex.stats["forks"], wall_s=round(time.time() - t0, 2), functions=sorted(result["functions"]))
    result["violations"] = result["violations"][:5]
    result["panics"] = result["panics"][:5]
    return result


if __name__ == "__main__":
    try:
        r = run(sys.argv[1], tuple(int(x) for x in sys.argv[2].split("x")), sys.argv[3])
        r["status"] = "violated" if (r["violations"] or r["panics"]) else "holds"
    except Unsupported as e:
        r = {"status": "unsupported", "why": str(e)}
    print(json.dumps(r))

"""Parser for the textual MIR that `rustc -Zunpretty=mir` prints (nightly).

Only the subset of MIR syntax that the functions we execute actually contain is
supported; anything else raises Unsupported, which the checks report as inconclusive
(never as success).
"""
import re


class Unsupported(Exception):
    pass


class Fn:
    def __init__(self, name, params, ret, locals_, blocks, header):
        self.name, self.params, self.ret, self.locals, self.blocks, self.header = name, params, ret, locals_, blocks, header


FN_RE = re.compile(r"^fn (.+?)\((.*)\) -> (.+?) \{$")
CONST_RE = re.compile(r"^(?:const|static) (?:mut )?(.+): (.+?) = \{$")


def split_top(s, sep=","):
    """split on sep at nesting depth 0 of (), [], <>, {} (character and string literals are skipped)"""
    out, depth, cur = [], 0, ""
    i = 0
    n = len(s)
    while i < n:
        c = s[i]
        # character literal: 'x', '\\n', '\\u{1F600}', '\\''
        if c == "'":
            m = re.match(r"'(?:\\u\{[0-9a-fA-F]+\}|\\.|[^'\\])'", s[i:])
            if m:
                cur += m.group(0)
                i += len(m.group(0))
                continue
        if c == '"':
            m = re.match(r'"(?:[^"\\]|\\.)*"', s[i:])
            if m:
                cur += m.group(0)
                i += len(m.group(0))
                continue
        if c in "([{<":
            depth += 1
        elif c in ")]}":
            depth -= 1
        elif c == ">" and not (i > 0 and s[i - 1] in "-="):
            depth -= 1
        if c == sep and depth == 0:
            out.append(cur.strip())
            cur = ""
        else:
            cur += c
        i += 1
    if cur.strip():
        out.append(cur.strip())
    return out


def load_functions(path):
    """Returns {name: [Fn, ...]} for every `fn` item in the dump (CTFE duplicates skipped)."""
    fns = {}
    lines = open(path).read().split("\n")
    i = 0
    skip_next_ctfe = False
    while i < len(lines):
        line = lines[i]
        if line.startswith("// MIR FOR CTFE"):
            skip_next_ctfe = True
            i += 1
            continue
        m = FN_RE.match(line)
        if not m:
            cm = CONST_RE.match(line)
            if cm:
                # a constant / promoted item: treated as a parameterless function returning its value
                j = i + 1
                while j < len(lines) and lines[j] != "}":
                    j += 1
                header = f"fn {cm.group(1)}() -> {cm.group(2)} {{"
                fns.setdefault(cm.group(1), []).append((header, lines[i + 1:j]))
                i = j + 1
                continue
            om = re.match(r"^const (\w+): (.+?) = (const .+);$", line)
            if om:
                # a constant printed on one line: `const NAME: &str = const "..";`
                header = f"fn {om.group(1)}() -> {om.group(2)} {{"
                body = [f"    let mut _0: {om.group(2)};", "", "    bb0: {", f"        _0 = {om.group(3)};", "        return;", "    }"]
                fns.setdefault(om.group(1), []).append((header, body))
            i += 1
            continue
        # find end: a line that is exactly "}"
        j = i + 1
        while j < len(lines) and lines[j] != "}":
            j += 1
        if not skip_next_ctfe:
            body = lines[i + 1:j]
            fns.setdefault(m.group(1), []).append((line, body))
        skip_next_ctfe = False
        i = j + 1
    return fns


def parse_fn(header, body):
    m = FN_RE.match(header)
    name, params_s, ret = m.group(1), m.group(2), m.group(3)
    params = []
    for p in (split_top(params_s) if params_s.strip() else []):
        pm = re.match(r"^(_\d+): (.*)$", p)
        params.append((pm.group(1), pm.group(2)))
    locals_ = {"_0": ret}
    for n, t in params:
        locals_[n] = t
    blocks = {}
    cur = None
    for raw in body:
        line = raw.strip()
        if not line or line.startswith("debug ") or line.startswith("scope ") or line == "}":
            if line == "}" and cur is not None and raw.startswith("    }"):
                cur = None
            continue
        lm = re.match(r"^let (?:mut )?(_\d+): (.*);$", line)
        if lm and cur is None:
            locals_[lm.group(1)] = lm.group(2)
            continue
        bm = re.match(r"^(bb\d+)( \(cleanup\))?: \{$", line)
        if bm:
            cur = bm.group(1)
            blocks[cur] = {"stmts": [], "term": None, "cleanup": bool(bm.group(2))}
            continue
        if cur is None:
            continue
        if line.startswith("StorageLive") or line.startswith("StorageDead") or line.startswith("nop") or line.startswith("ConstEvalCounter") \
                or line.startswith("FakeRead") or line.startswith("PlaceMention") or line.startswith("AscribeUserType") \
                or line.startswith("Retag") or line.startswith("Coverage"):
            continue
        if is_terminator(line):
            blocks[cur]["term"] = line.rstrip(";")
        else:
            blocks[cur]["stmts"].append(line.rstrip(";"))
    return Fn(name, params, ret, locals_, blocks, header)


def is_terminator(line):
    l = line
    return (l.startswith("goto ->") or l.startswith("switchInt(") or l.startswith("return") or l.startswith("unreachable")
            or l.startswith("resume") or l.startswith("assert(") or l.startswith("drop(") or "-> [return:" in l
            or l.endswith("-> unwind continue;") or l.startswith("falseEdge") or l.startswith("falseUnwind"))


# ---------------------------------------------------------------- operand / place / rvalue syntax trees
def parse_place(s):
    """Returns a nested tuple: ('local','_3') | ('deref',p) | ('field',p,idx) | ('downcast',p,'Some') | ('index',p,local)
    | ('constindex',p,i,from_end)"""
    s = s.strip()
    if re.fullmatch(r"_\d+", s):
        return ("local", s)
    if s.startswith("(*") and s.endswith(")"):
        return ("deref", parse_place(s[2:-1]))
    if s.startswith("(") and s.endswith(")"):
        inner = s[1:-1]
        # (P as Variant)
        m = re.match(r"^(.*) as (\w+)$", inner)
        if m and depth_ok(m.group(1)):
            return ("downcast", parse_place(m.group(1)), m.group(2))
        # (P.N: T)
        k = find_field_split(inner)
        if k is not None:
            base, rest = inner[:k], inner[k + 1:]
            fm = re.match(r"^(\d+): ", rest)
            if fm:
                return ("field", parse_place(base), int(fm.group(1)))
        raise Unsupported(f"place syntax: {s}")
    m = re.match(r"^(.*)\[(_\d+)\]$", s)
    if m:
        return ("index", parse_place(m.group(1)), m.group(2))
    m = re.match(r"^(.*)\[(-?\d+) of (\d+)\]$", s)
    if m:
        return ("constindex", parse_place(m.group(1)), int(m.group(2)), False)
    raise Unsupported(f"place syntax: {s}")


def depth_ok(s):
    d = 0
    for c in s:
        if c in "([":
            d += 1
        elif c in ")]":
            d -= 1
        if d < 0:
            return False
    return d == 0


def find_field_split(inner):
    """index of the '.' that separates base place from 'N: Type' at depth 0 (the last such before ': ')"""
    d = 0
    best = None
    for i, c in enumerate(inner):
        if c in "([":
            d += 1
        elif c in ")]":
            d -= 1
        elif c == "." and d == 0 and re.match(r"^\d+: ", inner[i + 1:]):
            best = i
            break
    return best


def parse_operand(s):
    s = s.strip()
    if s.startswith("copy "):
        return ("copy", parse_place(s[5:]))
    if s.startswith("move "):
        return ("move", parse_place(s[5:]))
    if s.startswith("no_retag copy "):
        return ("copy", parse_place(s[len("no_retag copy "):]))
    if s.startswith("const "):
        return ("const", s[6:])
    if re.fullmatch(r"[\w:<>{}@ ./\-#\[\]]+", s) and not s.startswith("_"):
        return ("const", "fn-item: " + s)  # a function item used as a value
    raise Unsupported(f"operand: {s}")


BINOPS = {"Lt", "Le", "Gt", "Ge", "Eq", "Ne", "Add", "Sub", "Mul", "AddWithOverflow", "SubWithOverflow", "MulWithOverflow",
          "BitAnd", "BitOr", "BitXor", "AddUnchecked", "SubUnchecked", "Offset", "Cmp", "Div", "Rem", "Shl", "Shr"}


def parse_rvalue(s):
    s = s.strip()
    m = re.match(r"^(\w+)\((.*)\)$", s)
    if m and m.group(1) in BINOPS:
        a, b = split_top(m.group(2))
        return ("binop", m.group(1), parse_operand(a), parse_operand(b))
    if m and m.group(1) in ("Not", "Neg"):
        return ("unop", m.group(1), parse_operand(m.group(2)))
    if m and m.group(1) == "discriminant":
        return ("discriminant", parse_place(m.group(2)))
    if m and m.group(1) == "Len":
        return ("len", parse_place(m.group(2)))
    if m and m.group(1) == "PtrMetadata":
        return ("ptrmeta", parse_operand(m.group(2)))
    if s.startswith("&mut "):
        return ("ref", parse_place(s[5:]), True)
    if s.startswith("&raw const (fake) "):
        # a fake raw borrow: only ever the operand of PtrMetadata (the length of a slice for a bounds check)
        return ("ref", parse_place(s[len("&raw const (fake) "):].strip()), False)
    if s.startswith("&raw "):
        raise Unsupported("raw pointers: " + s)
    if s.startswith("&"):
        return ("ref", parse_place(s[1:].strip()), False)
    fp = re.match(r"^([\w:]+(?:::<.*?>)?) as .*\(PointerCoercion\(ReifyFnPointer\(\w+\), \w+\)\)$", s)
    if fp:
        return ("use", ("const", "fn-item: " + fp.group(1)))  # a function item coerced to a fn pointer
    if s.startswith("copy ") or s.startswith("move ") or s.startswith("const ") or s.startswith("no_retag copy "):
        # possibly a cast: `copy _3 as usize (IntToInt)`
        cm = re.match(r"^(.*) as (.+?) \((\w+)(?:\(.*\))?\)$", s)
        if cm:
            return ("cast", parse_operand(cm.group(1)), cm.group(2), cm.group(3))
        return ("use", parse_operand(s))
    # tuple aggregate
    if s.startswith("(") and s.endswith(")"):
        inner = s[1:-1]
        if inner.strip() == "":
            return ("tuple", [])
        parts = split_top(inner)
        if len(parts) == 1 and not inner.rstrip().endswith(","):
            raise Unsupported("parenthesised rvalue: " + s)
        return ("tuple", [parse_operand(p) for p in parts if p])
    # array aggregate
    if s.startswith("[") and s.endswith("]"):
        inner = s[1:-1]
        if "; " in inner and not split_top(inner)[1:]:
            raise Unsupported("repeat array: " + s)
        return ("array", [parse_operand(p) for p in split_top(inner)])
    # enum variant / struct aggregate: Name::<..>(ops) | Name { f: op, .. } | {closure@..} { f: op }
    m = re.match(r"^(\{closure@[^}]*\}|[\w:<>, &'\[\]]+?) \{ (.*) \}$", s)
    if m:
        fields = []
        for part in split_top(m.group(2)):
            fm = re.match(r"^(\w+): (.*)$", part)
            fields.append((fm.group(1), parse_operand(fm.group(2))))
        return ("struct", m.group(1), fields)
    if s.endswith(")") and re.match(r"^[\w<(&\[]", s):
        # the argument list is the parenthesis group that closes at the end of the text (the type path before it may itself
        # contain tuples: `Option::<(&[char], u8)>::Some(move _10)`)
        depth, k = 0, None
        for i in range(len(s) - 1, -1, -1):
            if s[i] == ")":
                depth += 1
            elif s[i] == "(":
                depth -= 1
                if depth == 0:
                    k = i
                    break
        if k and re.fullmatch(r"[\w:<>, &';\[\]\(\)]+", s[:k]):
            return ("variant", s[:k], [parse_operand(p) for p in split_top(s[k + 1:-1])])
    if re.fullmatch(r"[\w:<>, &'\[\]\(\);]+", s) and ("::" in s or re.fullmatch(r"[A-Z]\w*", s)):
        return ("variant", s, [])
    raise Unsupported(f"rvalue: {s}")


def parse_stmt(s):
    m = re.match(r"^(.+?) = (.*)$", s)
    if not m:
        raise Unsupported("statement: " + s)
    # the lhs may itself contain ' = '? no. but `discriminant(_1) = 2` (SetDiscriminant) unsupported
    if s.startswith("discriminant("):
        raise Unsupported("SetDiscriminant")
    return (parse_place(m.group(1)), parse_rvalue(m.group(2)))


def parse_targets(s):
    """'[0: bb2, otherwise: bb18]' -> list of (key, bb)"""
    out = []
    for part in split_top(s.strip()[1:-1]):
        k, v = part.split(": ")
        out.append((k.strip(), v.strip()))
    return out


def parse_term(t):
    if t.startswith("goto -> "):
        return ("goto", t[len("goto -> "):])
    if t.startswith("falseEdge") or t.startswith("falseUnwind"):
        m = re.search(r"\[real: (bb\d+)", t)
        return ("goto", m.group(1))
    if t == "return":
        return ("return",)
    if t == "unreachable":
        return ("unreachable",)
    if t.startswith("resume"):
        return ("resume",)
    m = re.match(r"^switchInt\((.*)\) -> (\[.*\])$", t)
    if m:
        return ("switch", parse_operand(m.group(1)), parse_targets(m.group(2)))
    m = re.match(r"^assert\((!?)(.+?), \"(.*?)\"(?:, .*)?\) -> \[success: (bb\d+), unwind.*\]$", t)
    if m:
        return ("assert", m.group(1) == "!", parse_operand(m.group(2)), m.group(3), m.group(4))
    m = re.match(r"^drop\((.*)\) -> \[return: (bb\d+), unwind.*\]$", t)
    if m:
        return ("drop", parse_place(m.group(1)), m.group(2))
    m = re.match(r"^(.+?) = (.+)\((.*)\) -> \[return: (bb\d+), unwind.*\]$", t)
    if m:
        return ("call", parse_place(m.group(1)), m.group(2), [parse_operand(a) for a in split_top(m.group(3))], m.group(4))
    m = re.match(r"^(.+?) = (.+)\((.*)\) -> unwind.*$", t)
    if m:
        return ("call", parse_place(m.group(1)), m.group(2), [parse_operand(a) for a in split_top(m.group(3))], None)
    raise Unsupported("terminator: " + t)

"""C14 (kernel) - ignoring a lint hides that lint, only that lint, and keeps hiding it.

MIR symbolic execution of the real `IgnoredLints::{ignore_lint, is_ignored, remove_ignored, hash_lint_context}`,
`LintContext::from_lint` (prequel / problem / sequel windows: `Span::with_len`, `pulled_by`, `pushed_by`,
`Document::token_indices_intersecting`, `Token::to_fat`) and the derive-generated `Hash` impls of `LintContext`,
`LintKind`, `Suggestion`, `FatToken`, `TokenKind`, `Punctuation` ... on a document of word / space / period tokens with
fully symbolic letters and lints with symbolic kind, message character, priority and suggestion character.

`DefaultHasher` (SipHash) is replaced by a recording hasher whose `finish` is COLLISION-FREE: two hashes are equal iff
the recorded sequences are equal (added to the path condition as axioms). Hash impls of std types (`String`, `Vec<T>`,
integers, `char`, `Option`) record their parts; `Vec<T>` calls the real derived `<T as Hash>::hash` of harper's type T.
`HashSet<u64>` is an association list.

scenario `same:<doc>`    lint A (on token i) is ignored; lint B on token j of the SAME document with its own symbolic fields:
                         B is dropped by `remove_ignored` iff it equals A in kind, message, priority, suggestions and its
                         flagged + surrounding tokens (within two characters) have the same text and kinds as A's. In
                         particular: A itself is dropped; a lint differing in message / kind / suggestion / priority is kept.
scenario `edit:<doc>`    lint A on token i of document 1 is ignored; document 2 is document 1 with the characters of another
                         token k replaced (same length) and A re-reported at the same place: if token k lies more than two
                         characters away from A's span, A is still dropped.
                         If instead token k lies inside A's windows and its text changed, A is reported again.
scenario `append:<doc>`  lints on tokens i and j are ignored in two separate lists, the second is appended to the first (what an import
                         does): both stay hidden, a lint with a different message does not become hidden.
scenario `shift:<doc>`   document 2 is `<word> <space>` + document 1; A re-reported shifted: if A's span starts at >= 2 in
                         document 1 (so its two-character prequel window lies in the untouched text), A is still dropped.

<doc> = '+'-separated token kinds from {w (word of 2 letters), s (space), p (period)}.
usage: python3-vt c14.py <mir-dump> <scenario> <repo-src-dir>
"""
import json
import os
import re
import sys
import time
import z3
sys.path.insert(0, os.path.dirname(os.path.abspath(__file__)))
from mir import load_functions, Unsupported
from exec import Explorer, Interp, Int, Adt, Enum, LazyEnum, Cell, Ref, BoxRef, Tup, PathEnd, Infeasible
from models import MODELS, VecObj, SliceRef, StringObj, as_slice, deref, val_eq
from adts import load_enums


class SymHasher:
    heap = True

    def __init__(self):
        self.rec = []


class SetObj:
    heap = True

    def __init__(self):
        self.items = []


def run(mir_path, scenario, src_dir):
    raw = load_functions(mir_path)
    enums = load_enums(src_dir)
    mode, shape = scenario.split(":")
    shape = shape.split("+")
    TK, PU, LK = enums["TokenKind"], enums["Punctuation"], enums["LintKind"]
    SG = enums["Suggestion"]
    ex = Explorer()
    result = {"scenario": scenario, "violations": [], "panics": [], "functions": set()}

    def body(ctx):
        try:
            body_(ctx)
        except PathEnd:
            pass

    def body_(ctx):
        records = []  # (hash term, record) of every finish() on this path
        counter = [0]

        def rec_eq(r1, r2):
            if len(r1) != len(r2):
                return z3.BoolVal(False)
            parts = []
            for x, y in zip(r1, r2):
                if isinstance(x, (int, str)) or isinstance(y, (int, str)):
                    if not (isinstance(x, (int, str)) and isinstance(y, (int, str))) or x != y:
                        return z3.BoolVal(False)
                    continue
                if x.sort() != y.sort():
                    return z3.BoolVal(False)
                parts.append(x == y)
            return z3.And(*parts) if parts else z3.BoolVal(True)

        def h_default(it_, callee, args):
            return SymHasher()

        def h_finish(it_, callee, args):
            h = deref(args[0])
            counter[0] += 1
            t = z3.BitVec(f"hash#{counter[0]}", 64)
            for t2, r2 in records:
                ctx.assume((t == t2) == rec_eq(h.rec, r2))  # collision-free
            records.append((t, list(h.rec)))
            return Int(t, 64, False)

        def hash_fn_for(it_, ty):
            c = [n for n in raw if n.endswith(">::hash") and "{closure" not in n and re.match(r"^fn .*::hash\(_1: &" + re.escape(ty) + r", _2: &mut __H\)", raw[n][0][0])]
            return c[0] if len(c) == 1 else None

        def record(it_, v, h, ty=None):
            v = deref(v)
            if isinstance(v, Int):
                h.rec.append(v.t)
            elif z3.is_bool(v):
                h.rec.append(z3.If(v, z3.BitVecVal(1, 8), z3.BitVecVal(0, 8)))
            elif isinstance(v, StringObj):
                h.rec.append("str")
                h.rec.append(len(v.chars))
                for c in v.chars:
                    h.rec.append(c.t)
            elif isinstance(v, (VecObj, SliceRef)):
                sl = as_slice(v)
                h.rec.append("seq")
                h.rec.append(len(sl))
                f = hash_fn_for(it_, ty) if ty else None
                for i in range(len(sl)):
                    cell = sl.vec.elems[sl.lo + i]
                    if f:
                        it_.call_fn(f, [Ref(cell), Ref(Cell(h))])
                    else:
                        record(it_, cell.v, h)
            elif isinstance(v, Enum):
                h.rec.append("variant")
                h.rec.append(v.idx)
                for x in v.fields:
                    record(it_, x, h)
            elif isinstance(v, (Adt, Tup)):
                for x in (v.fields if isinstance(v, Adt) else v.items):
                    record(it_, x, h)
            else:
                raise Unsupported(f"hash of {type(v)}")

        def h_std(it_, callee, args):
            m = re.match(r"^<(?:std::vec::)?Vec<(.*)> as Hash>::hash::<", callee) or re.match(r"^<\[(.*)\] as Hash>::hash::<", callee)
            record(it_, args[0], deref(args[1]), m.group(1).split("::")[-1] if m else None)
            return ()

        def set_new(it_, callee, args):
            return SetObj()

        def set_insert(it_, callee, args):
            s_ = deref(args[0])
            for x in s_.items:
                if val_eq(it_, x, args[1]):
                    return z3.BoolVal(False)
            s_.items.append(args[1])
            return z3.BoolVal(True)

        def set_contains(it_, callee, args):
            s_ = deref(args[0])
            for x in s_.items:
                if val_eq(it_, x, args[1]):
                    return z3.BoolVal(True)
            return z3.BoolVal(False)

        resolve = {
            r"^<(std::hash::)?DefaultHasher as Default>::default$": h_default,
            r"^<(std::hash::)?DefaultHasher as Hasher>::finish$": h_finish,
            r"^<(u8|u16|u32|u64|usize|i8|i16|i32|i64|isize|bool|char|(std::string::)?String|str|(std::vec::)?Vec<.*>|\[.*\]|(std::option::)?Option<.*>) as Hash>::hash::<": h_std,
            r"^<(hashbrown::)?HashSet<u64(, .*)?> as Default>::default$|^(hashbrown::)?HashSet::<u64(, .*)?>::new$": set_new,
            r"^(hashbrown::)?HashSet::<u64(, .*)?>::insert$": set_insert,
            r"^(hashbrown::)?HashSet::<u64(, .*)?>::contains::<": set_contains,
            r"^<(hashbrown::)?HashSet<u64(, .*)?> as Extend<u64>>::extend::<": lambda it_, c, a: [set_insert(it_, c, [a[0], x]) for x in list(deref(a[1]).items)] and () or (),
            r"^(hashbrown::)?HashSet::<u64(, .*)?>::is_empty$": lambda it_, c, a: z3.BoolVal(len(deref(a[0]).items) == 0),
        }
        it = Interp(raw, MODELS, ctx, resolve, enums=enums)

        def find(suffix, ty):
            c = [n for n in raw if n.endswith(suffix) and "{closure" not in n and it.impl_type(n) == ty]
            if len(c) != 1:
                raise Unsupported(f"cannot resolve {ty}{suffix}: {c[:3]}")
            return c[0]

        f_ignore, f_remove = find("::ignore_lint", "IgnoredLints"), find("::remove_ignored", "IgnoredLints")
        f_new = find("::new", "IgnoredLints")

        def new_list():
            # the real constructor: whatever container the list uses is created by harper's own code
            return Cell(it.call_fn(f_new, []))

        def letters(tag, n):
            cs = [z3.BitVec(f"{tag}{j}", 32) for j in range(n)]
            for c in cs:
                ctx.assume(z3.And(z3.UGE(c, 97), z3.ULE(c, 122)))
            return cs

        def mk_doc(kinds, tag):
            toks, chars, spans, pos = [], [], [], 0
            for i, k in enumerate(kinds):
                if k == "w":
                    cs = letters(f"{tag}{i}_", 2)
                    kind = Enum("Word", TK.index("Word"), [Enum("None", 0, [])])
                elif k == "s":
                    cs = [z3.BitVecVal(32, 32)]
                    kind = Enum("Space", TK.index("Space"), [Int(1)])
                elif k == "p":
                    cs = [z3.BitVecVal(46, 32)]
                    kind = Enum("Punctuation", TK.index("Punctuation"), [Enum("Period", PU.index("Period"), [])])
                else:
                    raise Unsupported(f"token kind {k}")
                toks.append(Adt("Token", [Adt("Span", [Int(pos), Int(pos + len(cs))]), kind]))
                spans.append((pos, pos + len(cs)))
                chars.append(cs)
                pos += len(cs)
            return {"kinds": kinds, "chars": chars, "spans": spans, "len": pos,
                    "doc": Adt("Document", [Ref(Cell(VecObj([Int(c, 32) for cs in chars for c in cs]))), VecObj(toks)])}

        def mk_lint(tag, span, like=None):
            if like is not None:
                kind, msg, prio, sug = like
            else:
                kind = LazyEnum(ctx, z3.BitVec(f"{tag}-kind!", 8), [(v, i, (lambda: [])) for i, v in enumerate(LK[:3])])
                msg = z3.BitVec(f"{tag}-msg", 32)
                ctx.assume(z3.And(z3.UGE(msg, 97), z3.ULE(msg, 122)))
                prio = z3.BitVec(f"{tag}-prio", 8)
                sug = z3.BitVec(f"{tag}-sug", 32)
                ctx.assume(z3.And(z3.UGE(sug, 97), z3.ULE(sug, 122)))
            lint = Adt("Lint", [Adt("Span", [Int(span[0]), Int(span[1])]), kind,
                                VecObj([Enum("ReplaceWith", SG.index("ReplaceWith"), [VecObj([Int(sug, 32)])])]),
                                StringObj([Int(msg, 32)]), Int(prio, 8)])
            return lint, (kind, msg, prio, sug)

        def window(d, span):
            """reference: the (text, kind) of the tokens within two characters before the span, on it, within two after it"""
            s0, e0 = span
            out = []
            pre = (s0 - 2, s0) if s0 >= 2 else None  # `with_len(2).pulled_by(2)`: no prequel window closer than two chars to the start
            post = (s0 + 2, s0 + 4)                    # `with_len(2).pushed_by(2)`
            for w_ in (pre, (s0, e0), post):
                if w_ is None:
                    continue
                for (a, b), k, cs in zip(d["spans"], d["kinds"], d["chars"]):
                    if max(a, w_[0]) < min(b, w_[1]):
                        out.append((k, cs))
            return out

        def same_window(w1, w2):
            if len(w1) != len(w2):
                return z3.BoolVal(False)
            parts = []
            for (k1, c1), (k2, c2) in zip(w1, w2):
                if k1 != k2 or len(c1) != len(c2):
                    return z3.BoolVal(False)
                parts += [x == y for x, y in zip(c1, c2)]
            return z3.And(*parts) if parts else z3.BoolVal(True)

        def describe(model, docs, extra):
            if model is None:
                return None
            ev = lambda c: chr(model.eval(c, model_completion=True).as_long())
            d = {"documents": ["".join(ev(c) for cs in dd["chars"] for c in cs) for dd in docs]}
            d.update(extra)
            return d

        n = len(shape)
        sel_i, sel_j = z3.BitVec("tok_i", 8), z3.BitVec("tok_j", 8)
        claims, info, docs = [], {}, []
        try:
            d1 = mk_doc(shape, "a")
            docs.append(d1)
            ctx.assume(z3.ULT(sel_i, n))
            i = ctx.choose(sel_i, list(range(n)))
            A, fa = mk_lint("A", d1["spans"][i])
            ign = new_list()
            it.call_fn(f_ignore, [Ref(ign), Ref(Cell(A)), Ref(Cell(d1["doc"]))])
            info["ignored_token"] = i
            if mode == "same":
                ctx.assume(z3.ULT(sel_j, n))
                j = ctx.choose(sel_j, list(range(n)))
                B, fb = mk_lint("B", d1["spans"][j])
                info["other_token"] = j
                lints = VecObj([B])
                it.call_fn(f_remove, [Ref(ign), Ref(Cell(lints)), Ref(Cell(d1["doc"]))])
                dropped = len(lints.elems) == 0
                result["hidden_paths" if dropped else "kept_paths"] = result.get("hidden_paths" if dropped else "kept_paths", 0) + 1
                same_fields = [fa[1] == fb[1], fa[2] == fb[2], fa[3] == fb[3], z3.BoolVal(fa[0].variant == fb[0].variant)]
                same = z3.And(*same_fields, same_window(window(d1, d1["spans"][i]), window(d1, d1["spans"][j])))
                info["fields"] = (fa, fb)
                if dropped:
                    claims.append((same, "a lint that differs from the ignored one (message, kind, priority, suggestion or surrounding words) was hidden"))
                else:
                    claims.append((z3.Not(same), "a lint identical to the ignored one (same fields, same flagged and surrounding tokens) is still reported"))
            elif mode == "edit":
                sel_k = z3.BitVec("tok_k", 8)
                ctx.assume(z3.ULT(sel_k, n))
                k = ctx.choose(sel_k, list(range(n)))
                if shape[k] != "w" or k == i:
                    raise PathEnd()
                d2 = mk_doc(shape, "b")
                docs.append(d2)
                for t in range(n):
                    if t != k:
                        for x, y in zip(d1["chars"][t], d2["chars"][t]):
                            ctx.assume(x == y)
                info["edited_token"] = k
                s0, e0 = d1["spans"][i]
                a, b = d1["spans"][k]
                far = b <= s0 - 2 or a >= max(e0, s0 + 4) + 0
                # "within two characters": the prequel window is [s0-2, s0), the sequel window [s0+2, s0+4) and the span itself
                A2, _ = mk_lint("A2", d2["spans"][i], like=fa)
                lints = VecObj([A2])
                it.call_fn(f_remove, [Ref(ign), Ref(Cell(lints)), Ref(Cell(d2["doc"]))])
                hidden = len(lints.elems) == 0
                if far:
                    claims.append((z3.BoolVal(hidden), "an ignored lint is reported again after an edit more than two characters away from it"))
                else:
                    # the edited word lies inside the lint's windows: a lint whose surrounding words differ is a different lint
                    inside = max(a, s0 - 2 if s0 >= 2 else s0) < min(b, s0) or max(a, s0 + 2) < min(b, s0 + 4)
                    if not inside:
                        raise PathEnd()
                    changed = z3.Or(*[x != y for x, y in zip(d1["chars"][k], d2["chars"][k])])
                    claims.append((z3.Implies(changed, z3.BoolVal(not hidden)),
                                   "a lint stays hidden although a word within two characters of it was changed"))
            elif mode == "append":
                # two ignore lists (one lint ignored in each, on tokens i and j), the second appended to the first - what importing
                # an exported list does: both lints are hidden afterwards, a third lint that differs from both is not
                f_append = find("::append", "IgnoredLints")
                ctx.assume(z3.ULT(sel_j, n))
                j = ctx.choose(sel_j, list(range(n)))
                B, fb = mk_lint("B", d1["spans"][j])
                ign2 = new_list()
                it.call_fn(f_ignore, [Ref(ign2), Ref(Cell(B)), Ref(Cell(d1["doc"]))])
                it.call_fn(f_append, [Ref(ign), ign2.v])
                info["other_token"] = j
                for nm, (L_, f_) in (("first", (A, fa)), ("second", (B, fb))):
                    L2, _ = mk_lint("X" + nm, (L_.fields[0].fields[0].t, L_.fields[0].fields[1].t), like=f_)
                    lints = VecObj([L2])
                    it.call_fn(f_remove, [Ref(ign), Ref(Cell(lints)), Ref(Cell(d1["doc"]))])
                    claims.append((z3.BoolVal(len(lints.elems) == 0), f"after appending one ignore list to another, the lint ignored in the {nm} list is reported again"))
                C, fc = mk_lint("C", d1["spans"][i])
                lints = VecObj([C])
                it.call_fn(f_remove, [Ref(ign), Ref(Cell(lints)), Ref(Cell(d1["doc"]))])
                differs = z3.And(fc[1] != fa[1], fc[1] != fb[1])
                claims.append((z3.Implies(differs, z3.BoolVal(len(lints.elems) == 1)), "after appending, a lint with another message than both ignored lints is hidden"))
            elif mode == "shift":
                d2 = mk_doc(["w", "s"] + shape, "b")
                docs.append(d2)
                for t in range(n):
                    for x, y in zip(d1["chars"][t], d2["chars"][t + 2]):
                        ctx.assume(x == y)
                if d1["spans"][i][0] < 2:
                    raise PathEnd()
                A2, _ = mk_lint("A2", d2["spans"][i + 2], like=fa)
                lints = VecObj([A2])
                it.call_fn(f_remove, [Ref(ign), Ref(Cell(lints)), Ref(Cell(d2["doc"]))])
                claims.append((z3.BoolVal(len(lints.elems) == 0), "an ignored lint is reported again after text was inserted far in front of it"))
            else:
                raise Unsupported(f"scenario {mode}")
        except Infeasible:
            return
        finally:
            result["functions"] |= it.called
            for msg, where, model in it.panics:
                result["panics"].append({"msg": msg, "where": where, "input": describe(model, docs, info if "fields" not in info else {})})
        if it.panics:
            return
        for claim, what in claims:
            ok, model = ctx.valid(claim)
            if not ok:
                extra = {k_: v for k_, v in info.items() if k_ != "fields"}
                if "fields" in info:
                    ev = lambda t: model.eval(t, model_completion=True).as_long()
                    for nm, f_ in zip(("ignored", "other"), info["fields"]):
                        extra[nm] = {"kind": f_[0].variant, "message": chr(ev(f_[1])), "priority": ev(f_[2]), "suggestion": chr(ev(f_[3]))}
                result["violations"].append({"what": what, "input": describe(model, docs, extra)})
                break

    t0 = time.time()
    ex.run(body)
    result.update(paths=ex.stats["paths"], solver_queries=ex.stats["queries"], solver_s=round(ex.stats["solver_s"], 3),
                  forks=ex.stats["forks"], wall_s=round(time.time() - t0, 2), functions=sorted(result["functions"]))
    seen, uniq = set(), []
    for v in result["violations"]:
        if v["what"] not in seen:
            seen.add(v["what"])
            uniq.append(v)
    result["violations"] = uniq[:6]
    result["panics"] = result["panics"][:5]
    return result


if __name__ == "__main__":
    try:
        r = run(sys.argv[1], sys.argv[2], sys.argv[3])
        r["status"] = "violated" if (r["violations"] or r["panics"]) else "holds"
    except Unsupported as e:
        r = {"status": "unsupported", "why": str(e)}
    print(json.dumps(r))

"""C06 (kernel) - a word is reported misspelt exactly when the dictionary does not contain it.

MIR symbolic execution of the real `<SpellCheck<MutableDictionary> as Linter>::lint` end to end - word iteration,
`contains_exact_word` on the word and on its lower-case form, the dialect gate, `cached_suggest_correct_spelling` (LRU
cache, back-off loop), the real `suggest_correct_spelling` / `MutableDictionary::fuzzy_match` / `edit_distance_min_alloc` /
`order_suggestions`, the dialect `retain`, the cap at three suggestions, capitalisation of the suggestions, the message -
on a document whose word tokens are fully symbolic ASCII letters (both cases), against a real `MutableDictionary`
(built by the real `append_word`) holding one word of fully symbolic letters whose metadata is lazily arbitrary (its
dialect in particular) and an arbitrary active dialect.

The document's tokens carry the metadata the dictionary gives for them (`Some` iff the dictionary contains the word under
some capitalisation) - what `Document::parse` establishes. `WordId`'s hash is modelled as collision-free, hashbrown's map
as an association list, the LRU cache as an association list.

Checked on every path:
  * a word the dictionary lists - in its listed capitalisation, or a capitalised / upper-case form of a lower-case entry -
    whose dialect is none or the active one is NOT reported;
  * a word the dictionary does not contain under any capitalisation IS reported, exactly once, with the span of that word,
    kind Spelling;
  * nothing but word tokens is reported; lints come in document order;
  * every suggestion is the dictionary word (or it with a capitalised first letter) and that word's dialect is none or
    the active one; at most three suggestions.

scenario `<Lw>:<shape>[:<K>]`  dictionary word of Lw letters; K (default 2) of the four dialects are used for the word's and
    the active dialect (the rule only compares dialects for equality); shape = '+'-separated token kinds from {wN (word of N letters), s (space),
    p (period)}, e.g. `2:w2`, `2:w2+s+w2`.

usage: python3-vt c06.py <mir-dump> <scenario> <repo-src-dir>
"""
import json
import os
import re
import sys
import time
import z3
sys.path.insert(0, os.path.dirname(os.path.abspath(__file__)))
from mir import load_functions, Unsupported
from exec import Explorer, Interp, Int, Adt, Enum, Cell, Ref, BoxRef, Tup, PathEnd, Infeasible
from models import MODELS, VecObj, SliceRef, StringObj, LruObj, as_slice, deref
from adts import load_enums
from anyval import AnyBuilder, load_structs
from c15dict import is_letter, is_lower, lower, upper, seq_eq, chars_of


def run(mir_path, scenario, src_dir):
    raw = load_functions(mir_path)
    enums = load_enums(src_dir)
    structs = load_structs(src_dir)
    lw, shape = scenario.split(":")[:2]
    ndial = int(scenario.split(":")[2]) if scenario.count(":") >= 2 else 2
    lw = int(lw)
    shape = shape.split("+")
    TK, PU, LK = enums["TokenKind"], enums["Punctuation"], enums["LintKind"]
    ex = Explorer()
    result = {"scenario": scenario, "violations": [], "panics": [], "functions": set()}

    def body(ctx):
        try:
            body_(ctx)
        except PathEnd:
            pass

    def body_(ctx):
        builder = AnyBuilder(ctx, structs, enums)

        def hash_one(it_, callee, args):
            cs = chars_of(args[1])
            if len(cs) > 7:
                raise Unsupported("hash_one of a word longer than 7 chars")
            t = z3.BitVecVal(len(cs), 64)
            for c in cs:
                t = (t << 8) | z3.ZeroExt(32, c & 0xFF)
            return Int(t, 64, False)

        it = Interp(raw, MODELS, ctx, {r"as BuildHasher>::hash_one::<": hash_one}, enums=enums)
        f_new = [n for n in raw if n.endswith("::new") and "{closure" not in n and it.impl_type(n) == "MutableDictionary"]
        f_append = [n for n in raw if "MutableDictionary::append_word::<" in n and "{closure" not in n] or \
                   [n for n in raw if n.endswith("::append_word") and it.impl_type(n) == "MutableDictionary"]
        f_lint = [n for n in raw if n.endswith("::lint") and "{closure" not in n and it.impl_trait(n) == "Linter" and
                  (it.impl_type(n) or "").startswith("SpellCheck")]
        if len(f_new) != 1 or not f_append or len(f_lint) != 1:
            raise Unsupported(f"cannot resolve MutableDictionary::new / append_word / SpellCheck::lint: {f_new} {f_append[:2]} {f_lint}")
        # ---- the dictionary: one word, arbitrary metadata
        w = [z3.BitVec(f"d{i}", 32) for i in range(lw)]
        for c in w:
            ctx.assume(is_letter(c))
        md_w = builder.any("WordMetadata", "meta")
        names = [f for f, _t in structs["WordMetadata"]]
        # dialects: the rule only compares them for equality, so K of the four values are enough to exercise every outcome
        DI = enums["Dialect"][:ndial]
        from exec import LazyEnum
        active = LazyEnum(ctx, z3.BitVec("active-dialect!", 8), [(v, i, (lambda: [])) for i, v in enumerate(DI)])
        md_w.fields[names.index("dialect")] = LazyEnum(ctx, z3.BitVec("word-dialect?", 8), [
            ("None", 0, lambda: []),
            ("Some", 1, lambda: [LazyEnum(ctx, z3.BitVec("word-dialect!", 8), [(v, i, (lambda: [])) for i, v in enumerate(DI)])])])
        dialect_w = md_w.fields[names.index("dialect")]
        dcell = Cell(it.call_fn(f_new[0], []))
        vec = VecObj([Int(c, 32) for c in w])
        it.call_fn(f_append[0], [Ref(dcell), SliceRef(vec, 0, lw), md_w])
        sc = Adt("SpellCheck", [dcell.v, LruObj(), active])
        # ---- the document
        toks, chars, words = [], [], []
        pos = 0
        low = lambda xs: [lower(c) for c in xs]
        for i, k in enumerate(shape):
            m = re.fullmatch(r"w(\d+)", k)
            if m:
                n = int(m.group(1))
                cs = [z3.BitVec(f"t{i}_{j}", 32) for j in range(n)]
                for c in cs:
                    ctx.assume(is_letter(c))
                # the metadata Document::parse attaches: the dictionary's answer for this word (any capitalisation)
                known = ctx.branch(seq_eq(low(cs), low(w)))
                kind = Enum("Word", TK.index("Word"), [Enum("Some", 1, [md_w]) if known else Enum("None", 0, [])])
                words.append((len(toks), pos, pos + n, cs, known))
            elif k == "s":
                cs = [z3.BitVecVal(32, 32)]
                kind = Enum("Space", TK.index("Space"), [Int(z3.BitVecVal(1, 64))])
            elif k == "p":
                cs = [z3.BitVecVal(46, 32)]
                kind = Enum("Punctuation", TK.index("Punctuation"), [Enum("Period", PU.index("Period"), [])])
            else:
                raise Unsupported(f"token kind {k}")
            toks.append(Adt("Token", [Adt("Span", [Int(z3.BitVecVal(pos, 64)), Int(z3.BitVecVal(pos + len(cs), 64))]), kind]))
            chars.extend(cs)
            pos += len(cs)
        doc = Adt("Document", [Ref(Cell(VecObj([Int(c, 32) for c in chars]))), VecObj(toks)])

        def describe(model):
            if model is None:
                return None
            ev = lambda c: chr(model.eval(c, model_completion=True).as_long())
            d = {"dictionary_word": "".join(ev(c) for c in w), "text": "".join(ev(c) for c in chars)}
            dv = deref(dialect_w)
            d["word_dialect"] = dv.describe(model) if hasattr(dv, "describe") else None
            if d["word_dialect"] == "Some":
                inner = dv.fields[0]
                d["word_dialect"] = inner.describe(model) if hasattr(inner, "describe") else "any"
            d["active_dialect"] = active.describe(model) if hasattr(active, "describe") else None
            return d

        try:
            out = it.call_fn(f_lint[0], [Ref(Cell(sc)), Ref(Cell(doc))])
        except Infeasible:
            return
        finally:
            result["functions"] |= it.called
            for msg, where, model in it.panics:
                result["panics"].append({"msg": msg, "where": where, "input": describe(model)})
        if it.panics:
            return
        lints = [c.v for c in out.elems]
        claims = []
        # which word tokens were reported (spans are concrete or symbolic terms: compare against each word's span)
        prev_start = None
        for l in lints:
            s_, e_ = l.fields[0].fields[0].t, l.fields[0].fields[1].t
            claims.append((z3.Or(*[z3.And(s_ == a, e_ == b) for _i, a, b, _c, _k in words]) if words else z3.BoolVal(False),
                           "a spelling lint does not cover exactly one word"))
            if l.fields[1].variant != "Spelling":
                claims.append((z3.BoolVal(False), f"a spelling lint has kind {l.fields[1].variant}"))
            if prev_start is not None:
                claims.append((z3.ULT(prev_start, s_), "spelling lints are not in document order / a word is reported twice"))
            prev_start = s_
            sugs = as_slice(l.fields[2])
            if len(sugs) > 3:
                claims.append((z3.BoolVal(False), "more than three suggestions"))
            for j in range(len(sugs)):
                sg = sugs.vec.elems[sugs.lo + j].v
                if sg.variant != "ReplaceWith":
                    claims.append((z3.BoolVal(False), f"a spelling suggestion is {sg.variant}"))
                    continue
                sc_ = chars_of(sg.fields[0])
                cap = [upper(w[0])] + list(w[1:]) if w else []
                claims.append((z3.Or(seq_eq(sc_, w), seq_eq(sc_, cap)), "a suggestion is not a dictionary word (up to capitalising its first letter)"))
                dv = deref(dialect_w)
                if dv.variant == "Some":
                    if dv.fields[0].variant != active.variant:
                        claims.append((z3.BoolVal(False), "a suggestion belongs to another dialect than the active one"))
        for _i, a, b, cs, known in words:
            reported = z3.Or(*[z3.And(l.fields[0].fields[0].t == a, l.fields[0].fields[1].t == b) for l in lints]) if lints else z3.BoolVal(False)
            if not known:
                claims.append((reported, "a word the dictionary does not contain under any capitalisation is not reported"))
            else:
                # listed capitalisation, or a capitalised / upper-case form of a lower-case entry
                w_is_lower = z3.And(*[is_lower(c) for c in w])
                cap_form = seq_eq(cs, [upper(w[0])] + list(w[1:]))
                up_form = seq_eq(cs, [upper(c) for c in w])
                listed = z3.Or(seq_eq(cs, w), z3.And(w_is_lower, z3.Or(cap_form, up_form)))
                dv = deref(dialect_w)
                dialect_ok = True
                if dv.variant == "Some":
                    dialect_ok = dv.fields[0].variant == active.variant
                if dialect_ok:
                    claims.append((z3.Implies(listed, z3.Not(reported)), "a word the dictionary lists (in the active dialect) is reported as misspelt"))
        for claim, what in claims:
            ok, model = ctx.valid(claim)
            if not ok:
                result["violations"].append({"what": what, "input": describe(model)})
                break

    t0 = time.time()
    ex.run(body)
    result.update(paths=ex.stats["paths"], solver_queries=ex.stats["queries"], solver_s=round(ex.stats["solver_s"], 3),
                  forks=ex.stats["forks"], wall_s=round(time.time() - t0, 2), functions=sorted(result["functions"]))
    seen, uniq = set(), []
    for v in result["violations"]:
        if v["what"] not in seen:
            seen.add(v["what"])
            uniq.append(v)
    result["violations"] = uniq[:6]
    result["panics"] = result["panics"][:5]
    return result


if __name__ == "__main__":
    try:
        r = run(sys.argv[1], sys.argv[2], sys.argv[3])
        r["status"] = "violated" if (r["violations"] or r["panics"]) else "holds"
    except Unsupported as e:
        r = {"status": "unsupported", "why": str(e)}
    print(json.dumps(r))

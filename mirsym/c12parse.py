"""C12 (kernel) - Document::parse treats paragraphs independently.

MIR symbolic execution of the real `Document::parse` (all condensing passes in their real order, the thread-local `dyn
Pattern` passes, `match_quotes`, `articles_imply_nouns`, metadata from a stub dictionary that knows no word) three times:
on the lexed tokens of P ++ "\\n\\n" ++ D, of P ++ "\\n\\n", and of D alone. P has nP and D has nD tokens drawn (by forking)
from a menu; words are W fully symbolic ASCII letters, numbers one symbolic digit, the paragraph break is the token
`Newline(2)` the lexer produces for a blank line. On every path the parsed tokens of the whole are exactly the parsed
tokens of P (with its break) followed by the parsed tokens of D shifted by the length of P and the break - same kinds
(variant, blank counts, punctuation mark, number suffix) and same spans. Quotation marks are not in the menus (C12 exempts
quote pairing).

usage: python3-vt c12parse.py <mir-dump> <menu-name> <nP>x<nD> <W> <repo-src-dir>
"""
import json
import os
import sys
import time
import z3
sys.path.insert(0, os.path.dirname(os.path.abspath(__file__)))
from mir import load_functions, Unsupported
from exec import Explorer, Interp, Int, Adt, Enum, Cell, Ref, Tup, PathEnd, Infeasible, copy_val
from models import MODELS, VecObj
from adts import load_enums

MENUS = {
    "latin": ["word", "period", "space"],
    "contractions": ["word", "apostrophe", "space"],
    "numbers": ["number", "word", "period"],
    "mixed": ["word", "period", "space", "comma", "hyphen"],
}
PUNCT = {"period": ("Period", "."), "apostrophe": ("Apostrophe", "'"), "comma": ("Comma", ","), "hyphen": ("Hyphen", "-")}


def run(mir_path, menu_name, shape, W, src_dir):
    raw = load_functions(mir_path)
    enums = load_enums(src_dir)
    menu = MENUS[menu_name]
    nP, nD = (int(x) for x in shape.split("x"))
    TK, PU = enums["TokenKind"], enums["Punctuation"]
    c = [n for n in raw if n.endswith(">::parse") and "{closure" not in n and "document::<impl" in n]
    if len(c) != 1:
        raise Unsupported(f"cannot resolve Document::parse: {c}")
    fn = c[0]
    f_ri = [n for n in raw if n.endswith(">::remove_indices") and "{closure" not in n]
    if len(f_ri) != 1:
        raise Unsupported("cannot resolve VecExt::remove_indices")
    N = nP + 1 + nD
    sel = [z3.BitVec(f"k{i}", 8) for i in range(N)]
    ex = Explorer()
    result = {"menu": menu_name, "shape": shape, "word_len": W, "violations": [], "panics": [], "functions": set()}

    def body(ctx):
        try:
            body_(ctx)
        except PathEnd:
            pass

    def body_(ctx):
        kinds, segs = [], []
        for i in range(N):
            if i == nP:
                which = "pbreak"
            else:
                ctx.assume(z3.ULT(sel[i], len(menu)))
                which = menu[ctx.choose(sel[i], list(range(len(menu))))]
            if kinds and kinds[-1] == which and which in ("word", "number", "space"):
                raise PathEnd()  # maximal munch of the lexers
            kinds.append(which)
            if which == "word":
                cs = [z3.BitVec(f"c{i}_{j}", 32) for j in range(W)]
                for x in cs:
                    ctx.assume(z3.Or(z3.And(z3.UGE(x, 65), z3.ULE(x, 90)), z3.And(z3.UGE(x, 97), z3.ULE(x, 122))))
            elif which == "number":
                cs = [z3.BitVec(f"c{i}_0", 32)]
                ctx.assume(z3.And(z3.UGE(cs[0], 48), z3.ULE(cs[0], 57)))
            elif which == "space":
                cs = [z3.BitVecVal(32, 32)]
            elif which == "pbreak":
                cs = [z3.BitVecVal(10, 32), z3.BitVecVal(10, 32)]
            else:
                cs = [z3.BitVecVal(ord(PUNCT[which][1]), 32)]
            segs.append(cs)

        def mk_kind(which):
            if which == "word":
                return Enum("Word", TK.index("Word"), [Enum("None", 0, [])])
            if which == "number":
                return Enum("Number", TK.index("Number"), [Adt("Number", ["f64-value", Enum("None", 0, []), Int(10, 32), Int(0)])])
            if which == "space":
                return Enum("Space", TK.index("Space"), [Int(1)])
            if which == "pbreak":
                return Enum("Newline", TK.index("Newline"), [Int(2)])
            var = PUNCT[which][0]
            return Enum("Punctuation", TK.index("Punctuation"), [Enum(var, PU.index(var), [])])

        def mk_doc(lo, hi):
            chars, toks, pos = [], [], 0
            for i in range(lo, hi):
                toks.append(Adt("Token", [Adt("Span", [Int(pos), Int(pos + len(segs[i]))]), mk_kind(kinds[i])]))
                chars.extend(segs[i])
                pos += len(segs[i])
            return Adt("Document", [Ref(Cell(VecObj([Int(x, 32) for x in chars]))), VecObj(toks)]), pos

        resolve = {r" as VecExt>::remove_indices$": f_ri[0],
                   r"as Dictionary>::get_word_metadata$": lambda it_, c_, a: Enum("None", 0, [])}
        it = Interp(raw, MODELS, ctx, resolve, enums=enums)

        def describe(model):
            if model is None:
                return None
            txt = "".join(chr(model.eval(x, model_completion=True).as_long()) for s_ in segs for x in s_)
            return {"kinds": kinds, "text": txt, "split": sum(len(s_) for s_ in segs[:nP + 1])}

        def parse(lo, hi):
            doc, ln = mk_doc(lo, hi)
            it.call_fn(fn, [Ref(Cell(doc)), Ref(Cell(Adt("StubDictionary", [])))])
            return [c_.v for c_ in doc.fields[1].elems], ln

        runs = []
        try:
            runs.append(parse(0, N))
            runs.append(parse(0, nP + 1))
            runs.append(parse(nP + 1, N))
        except Infeasible:
            return
        finally:
            result["functions"] |= it.called
            for msg, where, model in it.panics:
                result["panics"].append({"msg": msg, "where": where, "input": describe(model)})
        if it.panics:
            return

        def sig(t):
            """(python-concrete shape, z3 terms) of a token's kind"""
            k = t.fields[1]
            shape_, terms = [k.variant], []
            if k.variant in ("Space", "Newline"):
                terms.append(k.fields[0].t)
            elif k.variant == "Punctuation":
                shape_.append(k.fields[0].variant)
            elif k.variant == "Number":
                shape_.append(k.fields[0].fields[1].variant)
                if k.fields[0].fields[1].variant == "Some":
                    shape_.append(k.fields[0].fields[1].fields[0].variant)
            elif k.variant == "Word":
                shape_.append(k.fields[0].variant)
            return shape_, terms

        (whole, _lw), (pp, lp), (dd, _ld) = runs
        claims = []
        if len(whole) != len(pp) + len(dd):
            claims.append((z3.BoolVal(False), f"the whole text parses to {len(whole)} tokens, the first paragraph (with its break) to {len(pp)} and the rest to {len(dd)}"))
        else:
            for a, b, shift in [(x, y, 0) for x, y in zip(whole, pp)] + [(x, y, lp) for x, y in zip(whole[len(pp):], dd)]:
                sa, ta = sig(a)
                sb, tb = sig(b)
                same = [a.fields[0].fields[0].t == b.fields[0].fields[0].t + shift, a.fields[0].fields[1].t == b.fields[0].fields[1].t + shift]
                if sa != sb or len(ta) != len(tb):
                    same.append(z3.BoolVal(False))
                else:
                    same += [x == y for x, y in zip(ta, tb)]
                claims.append((z3.And(*same), "a token of the whole text differs from the token of its paragraph parsed alone"))
        for claim, what in claims:
            ok, model = ctx.valid(claim)
            if not ok:
                result["violations"].append({"what": what, "input": describe(model)})
                break

    t0 = time.time()
    ex.run(body)
    result.update(paths=ex.stats["paths"], solver_queries=ex.stats["queries"], solver_s=round(ex.stats["solver_s"], 3),
                  forks=ex.stats["forks"], wall_s=round(time.time() - t0, 2), functions=sorted(result["functions"]))
    result["violations"] = result["violations"][:5]
    result["panics"] = result["panics"][:5]
    return result


if __name__ == "__main__":
    try:
        r = run(sys.argv[1], sys.argv[2], sys.argv[3], int(sys.argv[4]), sys.argv[5])
        r["status"] = "violated" if (r["violations"] or r["panics"]) else "holds"
    except Unsupported as e:
        r = {"status": "unsupported", "why": str(e)}
    print(json.dumps(r))

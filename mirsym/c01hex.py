"""C01/C02 - lex_hex_number on long literals: the u64 overflow boundary of from_str_radix.

MIR symbolic execution of lexing::lex_hex_number on '0x' + D symbolic hex digits (+ optionally one
trailing non-alphanumeric char). On every path: no panic (MIR asserts, unwrap), and when a token is
produced 1 <= next_index <= len, and for D <= 16 a token IS produced with next_index == D + 2.

With `mixed`, each of the D positions is a hex digit or any other printable ASCII character (forked): a token is produced iff
the literal starts with at least one hex digit and the run of hex digits is not followed by a letter or digit, and it
covers exactly `0x` + that run.

usage: python3-vt c01hex.py <mir-dump> <D> <trailing 0|1> <repo-src-dir> [mixed]
"""
import json
import os
import sys
import time
import z3
sys.path.insert(0, os.path.dirname(os.path.abspath(__file__)))
from mir import load_functions, Unsupported
from exec import Explorer, Interp, Int, Adt, Enum, Cell, Ref, Tup, PathEnd, Infeasible
from models import MODELS, VecObj, SliceRef
from adts import load_enums


def run(mir_path, D, trailing, src_dir, mixed=False):
    raw = load_functions(mir_path)
    enums = load_enums(src_dir)
    if "lex_hex_number" not in raw:
        raise Unsupported("no MIR for lex_hex_number")
    L = 2 + D + (1 if trailing else 0)
    chars = [z3.BitVec(f"c{i}", 32) for i in range(L)]
    ex = Explorer()
    result = {"digits": D, "trailing": trailing, "violations": [], "panics": [], "functions": set()}

    def hexd(c):
        return z3.Or(z3.And(z3.UGE(c, 48), z3.ULE(c, 57)), z3.And(z3.UGE(c, 97), z3.ULE(c, 102)), z3.And(z3.UGE(c, 65), z3.ULE(c, 70)))

    def text(model):
        return "".join(chr(model.eval(c, model_completion=True).as_long()) for c in chars)

    def body(ctx):
        ctx.assume(chars[0] == ord("0"))
        ctx.assume(chars[1] == ord("x"))
        run_len = D
        if mixed:
            # every position after `0x` is a hex digit or some other printable ASCII character (decided by forking): the token
            # must cover exactly `0x` + the leading run of hex digits
            run_len, broken = 0, False
            for c in chars[2:2 + D]:
                ctx.assume(z3.And(z3.UGE(c, 32), z3.ULE(c, 126)))
                if ctx.branch(hexd(c)):
                    if not broken:
                        run_len += 1
                elif not broken:
                    broken = True
                    # a literal glued to a letter or digit (`0x1g`) is a word, not a number
                    alnum = z3.Or(z3.And(z3.UGE(c, 48), z3.ULE(c, 57)), z3.And(z3.UGE(c, 65), z3.ULE(c, 90)), z3.And(z3.UGE(c, 97), z3.ULE(c, 122)))
                    if ctx.branch(alnum):
                        run_len = 0
        else:
            for c in chars[2:2 + D]:
                ctx.assume(hexd(c))
        if trailing:
            c = chars[-1]
            # one more char that is neither a hex digit nor alphanumeric (ASCII punctuation / blank)
            ctx.assume(z3.Or(c == 32, c == 46, c == 44, c == 10, c == 41))
        vec = VecObj([Int(c, 32) for c in chars])
        it = Interp(raw, MODELS, ctx, {}, enums=enums)
        out = None
        try:
            out = it.call_fn("lex_hex_number", [SliceRef(vec, 0, L)])
        except (PathEnd, Infeasible):
            pass
        result["functions"] |= it.called
        for msg, where, model in it.panics:
            result["panics"].append({"msg": msg, "where": where, "text": text(model) if model is not None else None})
        if out is None:
            return
        if out.variant == "Some" and mixed and run_len == 0:
            ok, model = ctx.valid(z3.BoolVal(False))
            result["violations"].append({"what": "a text that is not `0x` + hex digits followed by a non-alphanumeric character was lexed as a hex number", "text": text(model) if model is not None else None})
        elif out.variant == "Some":
            ft = out.fields[0]  # FoundToken { next_index, token }
            ni = ft.fields[0]
            claim = z3.And(z3.UGE(ni.t, 1), z3.ULE(ni.t, L))
            if D <= 16:
                claim = z3.And(claim, ni.t == run_len + 2, z3.BoolVal(run_len >= 1))
            ok, model = ctx.valid(claim)
            if not ok:
                result["violations"].append({"what": "next_index out of range or not the whole literal", "text": text(model)})
        elif D <= 16 and run_len >= 1:
            ok, model = ctx.valid(z3.BoolVal(False))
            result["violations"].append({"what": "a hex literal that fits u64 was not lexed as a number", "text": text(model) if model is not None else None})

    t0 = time.time()
    ex.run(body)
    result.update(paths=ex.stats["paths"], solver_queries=ex.stats["queries"], solver_s=round(ex.stats["solver_s"], 3),
                  forks=ex.stats["forks"], wall_s=round(time.time() - t0, 2), functions=sorted(result["functions"]))
    result["violations"] = result["violations"][:5]
    result["panics"] = result["panics"][:5]
    return result


if __name__ == "__main__":
    try:
        r = run(sys.argv[1], int(sys.argv[2]), int(sys.argv[3]), sys.argv[4], len(sys.argv) > 5 and sys.argv[5] == "mixed")
        r["status"] = "violated" if (r["violations"] or r["panics"]) else "holds"
    except Unsupported as e:
        r = {"status": "unsupported", "why": str(e)}
    print(json.dumps(r))

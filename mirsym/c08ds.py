"""C08 (kernel) - harper-ls serves quick fixes for exactly the lints it publishes diagnostics for.

MIR symbolic execution of `DocumentState::generate_diagnostics` and `DocumentState::generate_code_actions` (harper-ls,
with `range_to_span` / `position_to_index`, `Span::with_len`, `Span::overlaps_with`, `Document::get_full_content`,
`Document::get_token_at_char_index`, the priority sort and the overlap filter) on a document of T fully symbolic
characters (line feeds and astral characters included) whose linter is a stub returning N lints with symbolic,
non-empty spans inside the text and symbolic priorities. The ignore list is empty, `lints_to_diagnostics` and
`lint_to_code_actions` are stubs that record which lints they are handed. The request position is the LSP position
(line / UTF-16 column, computed by an independent reference) of an arbitrary character index k.

On every path: no panic; every lint of the linter is handed to `lints_to_diagnostics`; the lints handed to
`lint_to_code_actions` are exactly those whose span contains character k - so every published diagnostic offers its
fixes at every position inside its range, overlapping diagnostics included.

usage: python3-vt c08ds.py <core-mir> <ls-mir> <T> <N> <repo-root>
"""
import json
import os
import sys
import time
import z3
sys.path.insert(0, os.path.dirname(os.path.abspath(__file__)))
from mir import load_functions, Unsupported
from exec import Explorer, Interp, Int, Adt, Enum, Cell, Ref, BoxRef, Tup, PathEnd, Infeasible
from models import MODELS, VecObj, SliceRef, StringObj, as_slice, deref
from adts import load_enums, load_type_names


def run(core_mir, ls_mir, T, N, repo_root):
    raw = load_functions(core_mir)
    raw.update(load_functions(ls_mir))
    enums = load_enums(os.path.join(repo_root, "harper-core", "src"))
    enums.update({k: v for k, v in load_enums(os.path.join(repo_root, "harper-ls", "src")).items() if k not in enums})

    def find(suffix):
        c = [n for n in raw if n.startswith("document_state::<impl at") and n.endswith(suffix)]
        if len(c) != 1:
            raise Unsupported(f"cannot resolve DocumentState{suffix}: {c}")
        return c[0]

    f_diag, f_act = find(">::generate_diagnostics"), find(">::generate_code_actions")
    chars = [z3.BitVec(f"c{i}", 32) for i in range(T)]
    starts = [z3.BitVec(f"s{i}", 64) for i in range(N)]
    ends = [z3.BitVec(f"e{i}", 64) for i in range(N)]
    prios = [z3.BitVec(f"prio{i}", 8) for i in range(N)]
    ksel = z3.BitVec("k", 8)
    nice = [z3.Or(z3.And(z3.UGE(c, 97), z3.ULE(c, 122)), c == 32) for c in chars]
    ex = Explorer()
    result = {"chars": T, "lints": N, "violations": [], "panics": [], "functions": set()}
    TK = enums["TokenKind"]

    def describe(model, k):
        if model is None:
            return None
        cs = [model.eval(c, model_completion=True).as_long() for c in chars]
        return {"text": "".join(chr(c) for c in cs), "chars": cs, "k": k,
                "lints": [[model.eval(starts[i], model_completion=True).as_long(), model.eval(ends[i], model_completion=True).as_long(),
                           model.eval(prios[i], model_completion=True).as_long()] for i in range(N)]}

    def body(ctx):
        try:
            body_(ctx)
        except PathEnd:
            pass

    def body_(ctx):
        for c in chars:
            ctx.assume(z3.And(z3.ULE(c, 0x10FFFF), z3.Or(z3.ULT(c, 0xD800), z3.UGT(c, 0xDFFF))))
        for i in range(N):
            ctx.assume(z3.And(z3.ULT(starts[i], ends[i]), z3.ULE(ends[i], T)))
        ctx.assume(z3.ULT(ksel, T))
        k = ctx.choose(ksel, list(range(T)))
        # the LSP position of character k (reference semantics: lines end at '\n', columns count UTF-16 units)
        line = z3.BitVecVal(0, 32)
        col = z3.BitVecVal(0, 32)
        for c in chars[:k]:
            is_nl = c == 10
            line = z3.If(is_nl, line + 1, line)
            col = z3.If(is_nl, z3.BitVecVal(0, 32), col + z3.If(z3.UGE(c, 0x10000), z3.BitVecVal(2, 32), z3.BitVecVal(1, 32)))
        pos = Adt("Position", [Int(line, 32, False), Int(col, 32, False)])
        rng = Adt("Range", [pos, Adt("Position", [Int(line, 32, False), Int(col, 32, False)])])
        src = VecObj([Int(c, 32) for c in chars])
        word = Adt("Token", [Adt("Span", [Int(z3.BitVecVal(0, 64)), Int(z3.BitVecVal(T, 64))]), Enum("Word", TK.index("Word"), [Enum("None", 0, [])])])
        doc = Adt("Document", [Ref(Cell(src)), VecObj([word])])

        def mk_lints():
            return VecObj([Adt("Lint", [Adt("Span", [Int(starts[i]), Int(ends[i])]), Enum("Miscellaneous", 0, []), VecObj([]),
                                        ("lint-tag", i), Int(prios[i], 8, False)]) for i in range(N)])

        to_diag, to_act = [], []

        def tag_of(l):
            l = deref(l)
            return l.fields[3][1]

        def stub_diag(it, callee, args):
            sl = as_slice(args[1])
            for j in range(len(sl)):
                to_diag.append(tag_of(sl.vec.elems[sl.lo + j].v))
            return VecObj([("diagnostic", t) for t in to_diag])

        def stub_act(it, callee, args):
            to_act.append(tag_of(args[0]))
            return VecObj([("action", to_act[-1])])

        resolve = {
            r"^<LintGroupConfig as Clone>::clone$": lambda it, c, a: Adt("LintGroupConfig", [("config",)]),
            r"^LintGroupConfig::fill_with_curated$": lambda it, c, a: (),
            r"^<LintGroup as Linter>::lint$": lambda it, c, a: mk_lints(),
            r"^IgnoredLints::remove_ignored$": lambda it, c, a: (),
            r"^lints_to_diagnostics$": stub_diag,
            r"^lint_to_code_actions$": stub_act,
        }
        it = Interp(raw, MODELS, ctx, resolve, enums=enums)
        it.harper_types = it.harper_types | load_type_names(os.path.join(repo_root, "harper-ls", "src"))

        def state():
            group = Adt("LintGroup", [Adt("LintGroupConfig", [("config",)]), ("linters",), ("pattern_linters",), ("cache",), ("hasher",)])
            return Adt("DocumentState", [doc, ("ident_dict",), ("dict",), group, Enum("None", 0, []), ("ignored",), ("url",)])

        try:
            it.call_fn(f_diag, [Ref(Cell(state())), Enum("Hint", 0, [])])
            it.call_fn(f_act, [Ref(Cell(state())), rng, Ref(Cell(Adt("CodeActionConfig", [z3.BoolVal(False)])))])
        except (PathEnd, Infeasible):
            pass
        result["functions"] |= it.called
        for msg, where, model in it.panics:
            if model is not None and ctx.ex.solver.check(*nice) == z3.sat:
                model = ctx.ex.solver.model()
            result["panics"].append({"msg": msg, "where": where, "input": describe(model, k)})
        if it.panics:
            return
        claims = [(z3.BoolVal(to_diag == list(range(N))), f"lints_to_diagnostics was handed the lints {to_diag}, the linter reported {list(range(N))}")]
        for i in range(N):
            inside = z3.And(z3.ULE(starts[i], k), z3.ULT(z3.BitVecVal(k, 64), ends[i]))
            n_i = to_act.count(i)
            claims.append((z3.Implies(inside, z3.BoolVal(n_i == 1)),
                           f"the position of character {k} lies inside lint {i}, whose fixes are not offered there"))
            claims.append((z3.Implies(z3.Not(inside), z3.BoolVal(n_i == 0)),
                           f"fixes of lint {i} are offered at character {k}, which lies outside it"))
            claims.append((z3.BoolVal(n_i <= 1), f"the fixes of lint {i} are offered {n_i} times"))
        for claim, what in claims:
            ok, model = ctx.valid(claim, nice)
            if not ok:
                result["violations"].append({"what": what, "input": describe(model, k)})
                break

    t0 = time.time()
    ex.run(body)
    result.update(paths=ex.stats["paths"], solver_queries=ex.stats["queries"], solver_s=round(ex.stats["solver_s"], 3),
                  forks=ex.stats["forks"], wall_s=round(time.time() - t0, 2), functions=sorted(result["functions"]))
    result["violations"] = result["violations"][:5]
    result["panics"] = result["panics"][:5]
    return result


if __name__ == "__main__":
    try:
        r = run(sys.argv[1], sys.argv[2], int(sys.argv[3]), int(sys.argv[4]), sys.argv[5])
        r["status"] = "violated" if (r["violations"] or r["panics"]) else "holds"
    except Unsupported as e:
        r = {"status": "unsupported", "why": str(e)}
    print(json.dumps(r))

"""Enum variant orders, read from /repo's sources on every run (MIR discriminants of field-less and
data-carrying Rust enums without explicit discriminants are the variant indices in declaration order)."""
import glob
import os
import re

BUILTIN = {"Option": ["None", "Some"], "Result": ["Ok", "Err"], "Ordering": ["Less", "Equal", "Greater"],
           "ControlFlow": ["Continue", "Break"]}


def strip_comments(src):
    src = re.sub(r"//[^\n]*", "", src)
    src = re.sub(r"/\*.*?\*/", "", src, flags=re.S)
    return src


def enums_in(src):
    out = {}
    src = strip_comments(src)
    src = re.sub(r"#\s*!?\[[^\]]*\]", " ", src)  # attributes
    for m in re.finditer(r"\benum\s+(\w+)\s*(?:<[^>{]*>)?\s*\{", src):
        name = m.group(1)
        i = m.end()
        depth = 1
        body = ""
        while i < len(src) and depth > 0:
            c = src[i]
            if c in "{([":
                depth += 1
            elif c in "})]":
                depth -= 1
            if depth > 0:
                body += c if depth == 1 else " "
            i += 1
        # drop attributes
        body = re.sub(r"#\s*\[[^\]]*\]", " ", body)
        variants = []
        for part in body.split(","):
            vm = re.match(r"\s*(\w+)", part)
            if vm:
                variants.append(vm.group(1))
        explicit = bool(re.search(r"=\s*-?\d", body))
        if variants and not explicit:
            out[name] = variants
    return out


def load_enums(crate_src_dir):
    table = dict(BUILTIN)
    for path in glob.glob(os.path.join(crate_src_dir, "**", "*.rs"), recursive=True):
        for k, v in enums_in(open(path).read()).items():
            if k in table and table[k] != v:
                table[k] = None  # ambiguous name: refuse to guess
            else:
                table[k] = v
    return table


def load_type_names(crate_src_dir):
    """names of the structs, enums and traits the crate defines (used to tell harper impls from std ones)"""
    names = set()
    for path in glob.glob(os.path.join(crate_src_dir, "**", "*.rs"), recursive=True):
        src = strip_comments(open(path).read())
        for m in re.finditer(r"\b(?:struct|enum|trait)\s+(\w+)", src):
            names.add(m.group(1))
    return names

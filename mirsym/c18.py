"""C18 (kernel) - title-casing only changes letter case and is idempotent.

MIR symbolic execution of the real `make_title_case` + `should_capitalize_token` on a token sequence of words (W fully
symbolic ASCII letters, both cases), spaces and hyphens whose dictionary metadata is lazily arbitrary (`Option<WordMetadata>`
per word; proper-noun flag, preposition, determiner ... decided by forking when the code looks). The dictionary is a stub held
to its contract: `get_word_metadata(lower-cased word)` is an arbitrary but fixed answer per word; `get_correct_capitalization_of(w)`
is `None` or a spelling of the same length that equals `w` up to letter case. The conjunction list `SPECIAL_CONJUNCTIONS` is read
from /repo's title_case.rs on every run.

On every path: the result has the length of the input and differs from it only in the case of letters; the first word starts
with an upper-case letter; applying the function to its own output (same tokens and metadata) returns the output unchanged.

usage: python3-vt c18.py <mir-dump> <shape> <W> <repo-src-dir>      shape: '+'-separated kinds from {w, k, s, h} (k = the concrete word "ab", unknown
                                                                    to the dictionary)
"""
import json
import os
import re
import sys
import time
import z3
sys.path.insert(0, os.path.dirname(os.path.abspath(__file__)))
from mir import load_functions, Unsupported
from exec import Explorer, Interp, Int, Adt, Enum, Cell, Ref, BoxRef, Tup, PathEnd, Infeasible
from models import MODELS, VecObj, SliceRef, as_slice, deref
from adts import load_enums
from anyval import AnyBuilder, load_structs


def is_letter(c):
    return z3.Or(z3.And(z3.UGE(c, 65), z3.ULE(c, 90)), z3.And(z3.UGE(c, 97), z3.ULE(c, 122)))


def lower(c):
    return z3.If(z3.And(z3.UGE(c, 65), z3.ULE(c, 90)), c + 32, c)


class SetObj:
    heap = True

    def __init__(self, items):
        self.items = items


def run(mir_path, shape, W, src_dir):
    raw = load_functions(mir_path)
    enums = load_enums(src_dir)
    structs = load_structs(src_dir)
    shape = shape.split("+")
    TK, PU = enums["TokenKind"], enums["Punctuation"]
    src_text = open(os.path.join(src_dir, "title_case.rs")).read()
    m = re.search(r"SPECIAL_CONJUNCTIONS: HashSet<Vec<char>> =\s*\[([^\]]*)\]", src_text)
    if not m:
        raise Unsupported("cannot read SPECIAL_CONJUNCTIONS from title_case.rs")
    conj = re.findall(r'"([^"]*)"', m.group(1))
    fn = [n for n in raw if re.match(r"^(title_case::)?make_title_case::<", n) and "{closure" not in n] or \
         [n for n in raw if n in ("make_title_case", "title_case::make_title_case")]
    if len(fn) != 1:
        raise Unsupported(f"cannot resolve make_title_case: {fn[:4]}")
    fn = fn[0]
    ex = Explorer()
    result = {"shape": shape, "word_len": W, "conjunctions": conj, "violations": [], "panics": [], "functions": set()}

    def body(ctx):
        try:
            body_(ctx)
        except PathEnd:
            pass

    def body_(ctx):
        builder = AnyBuilder(ctx, structs, enums)
        from exec import LazyEnum

        def restricted_md(tag):
            """Option<WordMetadata> restricted to what title-casing reads: the proper-noun flag, determiner, preposition (all
            arbitrary); every other part of the metadata is absent (WordMetadata::or would otherwise fork on all of them)"""
            def none():
                return Enum("None", 0, [])

            def noun():
                fs = []
                for f, t in structs["NounData"]:
                    if f == "is_proper":
                        fs.append(LazyEnum(ctx, z3.BitVec(builder.fresh(tag + ".is_proper?"), 8),
                                           [("None", 0, lambda: []), ("Some", 1, lambda: [z3.Bool(builder.fresh(tag + ".is_proper"))])]))
                    else:
                        fs.append(none())
                return Adt("NounData", fs)

            def wm():
                fs = []
                for f, t in structs["WordMetadata"]:
                    if f == "noun":
                        fs.append(LazyEnum(ctx, z3.BitVec(builder.fresh(tag + ".noun?"), 8), [("None", 0, lambda: []), ("Some", 1, lambda: [noun()])]))
                    elif t == "bool":
                        fs.append(z3.Bool(builder.fresh(tag + "." + f)))
                    else:
                        fs.append(none())
                return Adt("WordMetadata", fs)
            return LazyEnum(ctx, z3.BitVec(builder.fresh(tag + "?"), 8), [("None", 0, lambda: []), ("Some", 1, lambda: [wm()])])
        toks, chars, spans, metas = [], [], [], []
        pos = 0
        for i, k in enumerate(shape):
            if k == "w":
                cs = [z3.BitVec(f"c{i}_{j}", 32) for j in range(W)]
                for c in cs:
                    ctx.assume(is_letter(c))
                md = restricted_md(f"word{i}")
                kind = Enum("Word", TK.index("Word"), [md])
                metas.append((i, md))
            elif k == "k":
                # a concrete word the dictionary does not know (keeps the path count down around one fully symbolic word)
                cs = [z3.BitVecVal(ord(c), 32) for c in "ab"]
                kind = Enum("Word", TK.index("Word"), [Enum("None", 0, [])])
            elif k == "s":
                cs = [z3.BitVecVal(32, 32)]
                kind = Enum("Space", TK.index("Space"), [Int(1)])
            elif k == "h":
                cs = [z3.BitVecVal(45, 32)]
                kind = Enum("Punctuation", TK.index("Punctuation"), [Enum("Hyphen", PU.index("Hyphen"), [])])
            else:
                raise Unsupported(f"kind {k}")
            toks.append(Adt("Token", [Adt("Span", [Int(pos), Int(pos + len(cs))]), kind]))
            spans.append((pos, pos + len(cs)))
            chars.extend(cs)
            pos += len(cs)
        L = pos
        word_idx = [i for i, k in enumerate(shape) if k == "w"]
        first_word = [i for i, k in enumerate(shape) if k in ("w", "k")][:1]
        lower_meta, caps = {}, {}

        def which_word(arg_chars):
            for i in word_idx:
                a, b = spans[i]
                if b - a == len(arg_chars) and ctx.valid(z3.And(*[x == lower(chars[a + j]) for j, x in enumerate([lower(c) for c in arg_chars])]))[0]:
                    return i
            return None

        def get_metadata(it_, callee, args):
            cs = [sl_.v.t for sl_ in (lambda s_: s_.vec.elems[s_.lo:s_.hi])(as_slice(args[1]))]
            i = which_word(cs)
            key = i if i is not None else ("other", len(lower_meta))
            if key not in lower_meta:
                lower_meta[key] = restricted_md(f"dictionary-lower{key}")
            md = lower_meta[key]
            if md.variant == "None":
                return Enum("None", 0, [])
            return Enum("Some", 1, [Ref(Cell(md.fields[0]))])

        def correct_caps(it_, callee, args):
            sl = as_slice(args[1])
            cs = [sl.vec.elems[sl.lo + j].v.t for j in range(len(sl))]
            i = which_word(cs)
            key = i if i is not None else ("other", len(caps))
            if key not in caps:
                some = z3.Bool(f"dictionary-knows{key}")
                spelling = [z3.BitVec(f"canon{key}_{j}", 32) for j in range(len(cs))]
                caps[key] = (some, spelling)
            some, spelling = caps[key]
            if not ctx.branch(some):
                return Enum("None", 0, [])
            for x, y in zip(spelling, cs):
                ctx.assume(z3.And(is_letter(x), lower(x) == lower(y)))  # the stored spelling equals the word up to case
            v = VecObj([Int(x, 32) for x in spelling])
            return Enum("Some", 1, [SliceRef(v, 0, len(spelling))])

        conj_set = SetObj([[ord(c) for c in w] for w in conj])

        def set_contains(it_, callee, args):
            sl = as_slice(args[1])
            cs = [sl.vec.elems[sl.lo + j].v.t for j in range(len(sl))]
            for w in deref(args[0]).items:
                if len(w) == len(cs) and it_.ctx.branch(z3.And(*[x == y for x, y in zip(cs, w)])):
                    return z3.BoolVal(True)
            return z3.BoolVal(False)

        resolve = {
            r" as Dictionary>::get_word_metadata$": get_metadata,
            r" as Dictionary>::get_correct_capitalization_of$": correct_caps,
            r"^<(title_case::should_capitalize_token::)?SPECIAL_CONJUNCTIONS as Deref>::deref$": lambda it_, c, a: Ref(Cell(conj_set)),
            r"^(hashbrown::)?HashSet::<Vec<char>(, .*)?>::contains::<": set_contains,
        }
        it = Interp(raw, MODELS, ctx, resolve, enums=enums)

        def title(src_chars):
            src = VecObj([Int(c, 32) for c in src_chars])
            out = it.call_fn(fn, [SliceRef(VecObj(toks), 0, len(toks)), SliceRef(src, 0, L), Ref(Cell(Adt("StubDictionary", [])))])
            return [c.v.t for c in deref(out).elems]

        def describe(model):
            if model is None:
                return None
            return {"text": "".join(chr(model.eval(c, model_completion=True).as_long()) for c in chars), "kinds": shape}

        claims = []
        try:
            o1 = title(chars)
            if len(o1) != L:
                claims.append((z3.BoolVal(False), f"the title-cased text has {len(o1)} characters, the input {L}"))
            else:
                for i_, (x, y) in enumerate(zip(o1, chars)):
                    claims.append((lower(x) == lower(y), "the title-cased text differs from the input in more than letter case"))
                if first_word:
                    a = spans[first_word[0]][0]
                    claims.append((z3.And(z3.UGE(o1[a], 65), z3.ULE(o1[a], 90)), "the first word of the title does not start with an upper-case letter"))
                o2 = title(o1)
                if len(o2) != L:
                    claims.append((z3.BoolVal(False), "title-casing the result again changes its length"))
                else:
                    claims.append((z3.And(*[x == y for x, y in zip(o1, o2)]), "title-casing is not idempotent"))
        except Infeasible:
            return
        finally:
            result["functions"] |= it.called
            for msg, where, model in it.panics:
                result["panics"].append({"msg": msg, "where": where, "input": describe(model)})
        if it.panics:
            return
        for claim, what in claims:
            ok, model = ctx.valid(claim)
            if not ok:
                d = describe(model)
                d["result"] = "".join(chr(model.eval(c, model_completion=True).as_long()) for c in o1)
                result["violations"].append({"what": what, "input": d})
                break

    t0 = time.time()
    ex.run(body)
    result.update(paths=ex.stats["paths"], solver_queries=ex.stats["queries"], solver_s=round(ex.stats["solver_s"], 3),
                  forks=ex.stats["forks"], wall_s=round(time.time() - t0, 2), functions=sorted(result["functions"]))
    seen, uniq = set(), []
    for v in result["violations"]:
        if v["what"] not in seen:
            seen.add(v["what"])
            uniq.append(v)
    result["violations"] = uniq[:6]
    result["panics"] = result["panics"][:5]
    return result


if __name__ == "__main__":
    try:
        r = run(sys.argv[1], sys.argv[2], int(sys.argv[3]), sys.argv[4])
        r["status"] = "violated" if (r["violations"] or r["panics"]) else "holds"
    except Unsupported as e:
        r = {"status": "unsupported", "why": str(e)}
    print(json.dumps(r))

"""C02 - the condensing passes of Document::parse keep the token stream a tiling of the text.

Symbolic execution of the real MIR of one pass at a time on a document of N tokens that tile a
text of L chars (token boundaries symbolic, kinds chosen from a per-pass menu by forking,
characters symbolic where the pass reads them). On every path z3 decides that afterwards the
tokens still tile [0, L): first starts at 0, consecutive tokens are contiguous and non-empty, the
last one ends at L - "no character lost or duplicated by any condensing step".

usage: python3-vt c02.py <mir-dump> <pass> <N> <repo-src-dir>   -> one JSON object
"""
import json
import os
import sys
import time
import z3
sys.path.insert(0, os.path.dirname(os.path.abspath(__file__)))
from mir import load_functions, Unsupported
from exec import Explorer, Interp, Int, Adt, Enum, Cell, Ref, Tup, PathEnd, Infeasible
from models import MODELS, VecObj, deref
from adts import load_enums

# per pass: the kinds that matter to it (name -> constructor), and whether it reads characters
MENUS = {
    "condense_dotted_initialisms": ["word", "period", "space", "other"],
    "condense_spaces": ["space", "word", "other"],
    "condense_newlines": ["newline", "word", "other"],
    "newlines_to_breaks": ["newline", "word"],
    "condense_number_suffixes": ["number", "word", "space"],
    "match_quotes": ["quote", "word", "pbreak"],
    # the whole Document::parse pipeline (all condensing passes in their real order, quote pairing,
    # articles_imply_nouns, dictionary metadata from a stub dictionary that knows no word)
    "parse": ["word", "period", "apostrophe", "space", "newline", "quote", "number"],
    # the same pipeline on documents drawn from sub-menus, so that more tokens fit the path budget
    "parse:quotes": ["quote", "period", "word", "space"],
    "parse:contractions": ["word", "apostrophe", "period", "space"],
    "parse:numbers": ["number", "word", "period", "space"],
    "parse:lines": ["newline", "space", "word", "period"],
}
# fixed token kinds (boundaries and characters stay symbolic): shapes too long for the forked menus
SKELETONS = {
    "condense_number_suffixes:two_ordinals": ["number", "word", "space", "number", "word"],
    "parse:two_ordinals": ["number", "word", "space", "number", "word"],
    "condense_number_suffixes:three_ordinals": ["number", "word", "space", "number", "word", "space", "number", "word"],
}


def find_fn(raw, suffix, contains=""):
    c = [n for n in raw if n.endswith(suffix) and "{closure" not in n and contains in n]
    if len(c) != 1:
        raise Unsupported(f"cannot uniquely resolve MIR function *{suffix}: {c}")
    return c[0]


def run(mir_path, pass_name, n, src_dir, extra=2):
    raw = load_functions(mir_path)
    enums = load_enums(src_dir)
    variant = pass_name
    pass_name = pass_name.split(":")[0]
    fn = find_fn(raw, ">::" + pass_name, "document::<impl")
    f_ri = find_fn(raw, ">::remove_indices")
    resolve = {r" as VecExt>::remove_indices$": f_ri}
    skeleton = SKELETONS.get(variant)
    menu = MENUS[variant] if skeleton is None else sorted(set(skeleton))
    if skeleton is not None and len(skeleton) != n:
        raise Unsupported(f"skeleton {variant} has {len(skeleton)} tokens")
    L = n + extra
    bounds = [z3.BitVec(f"b{i}", 64) for i in range(n + 1)]
    sel = [z3.BitVec(f"k{i}", 8) for i in range(n)]
    chars = [z3.BitVec(f"c{i}", 32) for i in range(L)]
    amounts = [z3.BitVec(f"a{i}", 64) for i in range(n)]
    ex = Explorer()
    result = {"pass": variant, "n": n, "text_len": L, "violations": [], "panics": [], "functions": set()}
    TK = enums["TokenKind"]
    PU = enums["Punctuation"]

    def mk_kind(ctx, i, which):
        if which == "word":
            return Enum("Word", TK.index("Word"), [Enum("None", 0, [])])
        if which == "period":
            return Enum("Punctuation", TK.index("Punctuation"), [Enum("Period", PU.index("Period"), [])])
        if which == "apostrophe":
            return Enum("Punctuation", TK.index("Punctuation"), [Enum("Apostrophe", PU.index("Apostrophe"), [])])
        if which == "quote":
            return Enum("Punctuation", TK.index("Punctuation"),
                        [Enum("Quote", PU.index("Quote"), [Adt("Quote", [Enum("None", 0, [])])])])
        if which == "space":
            ctx.assume(z3.And(z3.UGE(amounts[i], 1), z3.ULE(amounts[i], 8)))
            return Enum("Space", TK.index("Space"), [Int(amounts[i])])
        if which == "newline":
            ctx.assume(z3.And(z3.UGE(amounts[i], 1), z3.ULE(amounts[i], 8)))
            return Enum("Newline", TK.index("Newline"), [Int(amounts[i])])
        if which == "number":
            # Number { value, suffix, radix, precision }
            return Enum("Number", TK.index("Number"),
                        [Adt("Number", ["f64-value", Enum("None", 0, []), Int(10, 32), Int(0)])])
        if which == "pbreak":
            return Enum("ParagraphBreak", TK.index("ParagraphBreak"), [])
        if which == "other":
            return Enum("Unlintable", TK.index("Unlintable"), [])
        raise Unsupported(which)

    def body(ctx):
        try:
            body_(ctx)
        except PathEnd:
            pass

    def body_(ctx):
        # tokens tile [0, L): 0 = b0 < b1 < ... < bn = L
        ctx.assume(bounds[0] == 0)
        ctx.assume(bounds[n] == L)
        for i in range(n):
            ctx.assume(z3.ULT(bounds[i], bounds[i + 1]))
        for c in chars:
            ctx.assume(z3.ULE(c, 0x10FFFF))
        toks = []
        kinds_here = []
        for i in range(n):
            if skeleton is not None:
                k = menu.index(skeleton[i])
            else:
                ctx.assume(z3.ULT(sel[i], len(menu)))
                k = ctx.choose(sel[i], list(range(len(menu))))
            kinds_here.append(menu[k])
            span = Adt("Span", [Int(bounds[i]), Int(bounds[i + 1])])
            toks.append(Adt("Token", [span, mk_kind(ctx, i, menu[k])]))
            # lexical shape established by the lexers (decided under C02's shape kernels): a punctuation
            # token is one char, Newline(k) covers k chars, Space(k) covers k blanks or k/2 tabs
            w = bounds[i + 1] - bounds[i]
            if menu[k] in ("period", "quote", "apostrophe"):
                ctx.assume(w == 1)
            elif menu[k] == "newline":
                ctx.assume(w == amounts[i])
            elif menu[k] == "space":
                ctx.assume(z3.Or(w == amounts[i], w + w == amounts[i]))
        for i in range(n - 1):
            # maximal munch of the lexers: two words, two numbers or two newline runs are never adjacent
            if kinds_here[i] == kinds_here[i + 1] and kinds_here[i] in ("word", "number", "newline"):
                raise PathEnd()
        source = VecObj([Int(c, 32) for c in chars])
        tokens = VecObj(toks)
        doc = Adt("Document", [Ref(Cell(source)), tokens])  # { source: Lrc<Vec<char>>, tokens }
        it = Interp(raw, MODELS, ctx, dict(resolve), enums=enums)
        try:
            if pass_name == "parse":
                it.resolve_map[r"as Dictionary>::get_word_metadata$"] = lambda it_, c, a: Enum("None", 0, [])
                it.call_fn(fn, [Ref(Cell(doc)), Ref(Cell(Adt("StubDictionary", [])))])
            else:
                it.call_fn(fn, [Ref(Cell(doc))])
        except (PathEnd, Infeasible):
            pass
        result["functions"] |= it.called
        for msg, where, model in it.panics:
            result["panics"].append({"msg": msg, "where": where, "input": describe(model, kinds_here)})
        out = [c.v for c in tokens.elems]
        claims = []
        if not out:
            claims.append((z3.BoolVal(n == 0), "all tokens disappeared"))
        else:
            claims.append((out[0].fields[0].fields[0].t == 0, "the first token no longer starts at 0"))
            claims.append((out[-1].fields[0].fields[1].t == L, "the last token no longer ends at the end of the text (characters lost)"))
            for a, b in zip(out, out[1:]):
                claims.append((a.fields[0].fields[1].t == b.fields[0].fields[0].t,
                               "consecutive tokens are not contiguous (characters lost or duplicated)"))
            for t in out:
                claims.append((z3.ULT(t.fields[0].fields[0].t, t.fields[0].fields[1].t), "a token became empty or inverted"))
        if pass_name in ("parse", "match_quotes"):
            # quote tokens point at existing twin quotes that point back
            for qi, t in enumerate(out):
                k = t.fields[1]
                if k.variant == "Punctuation" and k.fields[0].variant == "Quote":
                    tw = k.fields[0].fields[0].fields[0]  # Quote { twin_loc: Option<usize> }
                    if tw.variant == "Some":
                        idx = z3.simplify(tw.fields[0].t)
                        ok_twin = False
                        if z3.is_bv_value(idx) and idx.as_long() < len(out) and idx.as_long() != qi:
                            ok2 = out[idx.as_long()].fields[1]
                            if ok2.variant == "Punctuation" and ok2.fields[0].variant == "Quote":
                                tw2 = ok2.fields[0].fields[0].fields[0]
                                if tw2.variant == "Some":
                                    b2 = z3.simplify(tw2.fields[0].t)
                                    ok_twin = z3.is_bv_value(b2) and b2.as_long() == qi
                        claims.append((z3.BoolVal(ok_twin), "a quote token's twin_loc does not point at a quote that points back"))
        if pass_name in ("condense_number_suffixes", "parse"):
            # a number token that was given an ordinal suffix covers exactly its digits and the two suffix letters
            for t in out:
                k = t.fields[1]
                if k.variant == "Number" and k.fields[0].fields[1].variant == "Some":
                    s0 = t.fields[0].fields[0].t
                    e0 = t.fields[0].fields[1].t
                    # the original number token that starts here
                    orig = z3.BoolVal(False)
                    for i in range(n):
                        if kinds_here[i] == "number":
                            orig = z3.Or(orig, z3.And(bounds[i] == s0, e0 == bounds[i + 1] + 2))
                    claims.append((orig, "a number token with an ordinal suffix covers more than its digits and the two suffix letters"))
            # ... and a number directly followed by a word that is exactly an ordinal suffix (st / nd / rd / th, any case)
            # becomes ONE number token over both that carries that suffix - for every such pair of the document
            def low_(c):
                return z3.If(z3.And(z3.UGE(c, 65), z3.ULE(c, 90)), c + 32, c)
            SUF = {"St": "st", "Nd": "nd", "Rd": "rd", "Th": "th"}
            for i in range(n - 1):
                if kinds_here[i] == "number" and kinds_here[i + 1] == "word" and (i == 0 or kinds_here[i - 1] != "number"):
                    two = bounds[i + 2] - bounds[i + 1] == 2
                    for var, txt in SUF.items():
                        conds = []
                        for k0 in range(L - 1):
                            conds.append(z3.And(bounds[i + 1] == k0, low_(chars[k0]) == ord(txt[0]), low_(chars[k0 + 1]) == ord(txt[1])))
                        spells = z3.And(two, z3.Or(*conds))
                        found = z3.BoolVal(False)
                        for t in out:
                            k = t.fields[1]
                            if k.variant == "Number" and k.fields[0].fields[1].variant == "Some" and deref(k.fields[0].fields[1].fields[0]).variant == var:
                                found = z3.Or(found, z3.And(t.fields[0].fields[0].t == bounds[i], t.fields[0].fields[1].t == bounds[i + 2]))
                        claims.append((z3.Implies(spells, found), "a number directly followed by an ordinal suffix did not become one number token carrying that suffix"))
        # counterexamples are replayed through the lexer: prefer ones it can produce (two adjacent blank tokens exist
        # only as a run of tabs next to a run of spaces)
        prefer = []
        for i in range(n - 1):
            if kinds_here[i] == "space" and kinds_here[i + 1] == "space":
                wi, wj = bounds[i + 1] - bounds[i], bounds[i + 2] - bounds[i + 1]
                prefer.append((wi == amounts[i]) != (wj == amounts[i + 1]))
        for claim, what in claims:
            ok, model = ctx.valid(claim, prefer)
            if not ok:
                result["violations"].append({"what": what, "input": describe(model, kinds_here),
                                             "tokens_after": len(out)})
                break

    def describe(model, kinds_here):
        if model is None:
            return None
        bs = [model.eval(b, model_completion=True).as_long() for b in bounds]
        cs = [model.eval(c, model_completion=True).as_long() for c in chars]
        am = [model.eval(a, model_completion=True).as_long() for a in amounts]
        return {"kinds": kinds_here, "boundaries": bs, "chars": cs, "text": as_text(kinds_here, bs, cs, am)}

    def as_text(kinds_here, bs, cs, am=None):
        """a plain-English text whose lexing has this token shape (used to replay through the public API)"""
        out = []
        for i, k in enumerate(kinds_here):
            w = bs[i + 1] - bs[i]
            seg = cs[bs[i]:bs[i + 1]]
            if k == "word":
                out.append("".join(chr(c) if (65 <= c <= 90 or 97 <= c <= 122) else "eginsa"[(i + j) % 6]
                                   for j, c in enumerate(seg)))
            elif k == "period":
                out.append(".")
            elif k == "quote":
                out.append('"')
            elif k == "apostrophe":
                out.append("'")
            elif k == "space":
                out.append("\t" * w if am is not None and am[i] == 2 * w else " " * w)
            elif k == "pbreak":
                out.append("\n" * max(w, 2))
            elif k == "newline":
                out.append("\n" * w)
            elif k == "number":
                out.append("".join("1234567"[(i + j) % 7] for j in range(w)))
            else:
                out.append("`" * w)
        return "".join(out)

    t0 = time.time()
    ex.run(body)
    result.update(paths=ex.stats["paths"], solver_queries=ex.stats["queries"], solver_s=round(ex.stats["solver_s"], 3),
                  forks=ex.stats["forks"], wall_s=round(time.time() - t0, 2), functions=sorted(result["functions"]))
    # keep the report small
    result["violations"] = result["violations"][:5]
    result["panics"] = result["panics"][:5]
    return result


if __name__ == "__main__":
    mirp, pass_name, n, src = sys.argv[1], sys.argv[2], int(sys.argv[3]), sys.argv[4]
    extra = int(sys.argv[5]) if len(sys.argv) > 5 else 2
    try:
        r = run(mirp, pass_name, n, src, extra)
        r["status"] = "violated" if (r["violations"] or r["panics"]) else "holds"
    except Unsupported as e:
        r = {"status": "unsupported", "why": str(e), "n": n, "pass": pass_name}
    print(json.dumps(r))

"""C02 (kernel, Markdown front-end) - `<Markdown as Parser>::parse` turns the byte ranges of the CommonMark events into
character spans that lie on the text the events cover.

MIR symbolic execution of `<Markdown as Parser>::parse` (with `remove_hidden_wikilink_tokens`, `remove_wikilink_brackets`,
`Span::new_with_len`, `Span::push_by`) on every text of T fully symbolic characters - so every mix of 1-, 2-, 3- and 4-byte
UTF-8 characters - and both values of `ignore_link_title`. pulldown-cmark (an external crate) is a stub constrained by its
contract only: one block (paragraph / heading / code block / block quote / list item) containing up to K inline events
(text, code span, inline HTML, HTML, soft break, hard break, link with a title text) whose **byte** ranges are in order,
disjoint, inside the text and on char boundaries, and whose text is the source text of its range (a code span's: the range
without its delimiters). The inner plain-English parser is a stub returning one word token over the slice it is given.

On every path: no panic (string slicing at a non-boundary, slice out of range, overflow); the tokens are exactly the
expected ones - every token sits at the *character* positions of its event's range, inside the text; tokens covering
characters are in increasing, non-overlapping order.

usage: python3-vt c02md.py <mir-dump> <T> <K> <repo-src-dir> <pulldown-cmark-src-dir>
"""
import json
import os
import sys
import time
import z3
sys.path.insert(0, os.path.dirname(os.path.abspath(__file__)))
from mir import load_functions, Unsupported
from exec import Explorer, Interp, Int, Adt, Enum, Cell, Ref, Tup, PathEnd, Infeasible
from models import MODELS, VecObj, SliceRef, SeqIter, StringObj, as_slice, deref, usize, some
from adts import load_enums

BLOCKS = ["Paragraph", "Heading", "CodeBlock", "BlockQuote", "Item"]
INLINE = ["text", "code", "inline_html", "html", "softbreak", "hardbreak", "link"]
LINTED_BLOCKS = ("Paragraph", "Heading", "Item")


def run(mir_path, T, K, src_dir, md_src, inline=None):
    INLINE = inline or globals()["INLINE"]
    raw = load_functions(mir_path)
    enums = load_enums(src_dir)
    md_enums = load_enums(md_src)
    for k in ("Event", "Tag", "TagEnd"):
        if k in enums or not md_enums.get(k):
            raise Unsupported(f"enum {k}: not uniquely defined by pulldown-cmark")
        enums[k] = md_enums[k]
    EV, TG, TE, TK = enums["Event"], enums["Tag"], enums["TagEnd"], enums["TokenKind"]
    cands = [n for n in raw if n.endswith(">::parse") and n.startswith("markdown::<impl at")]
    if len(cands) != 1:
        raise Unsupported(f"cannot resolve Markdown::parse: {cands}")
    fn = cands[0]
    chars = [z3.BitVec(f"c{i}", 32) for i in range(T)]
    opt = z3.Bool("ignore_link_title")
    sel_block = z3.BitVec("block", 8)
    sel_n = z3.BitVec("n_inline", 8)
    sel_kind = [z3.BitVec(f"kind{i}", 8) for i in range(K)]
    sel_p = [z3.BitVec(f"p{i}", 8) for i in range(K)]
    sel_q = [z3.BitVec(f"q{i}", 8) for i in range(K)]
    nice = [z3.Or(z3.And(z3.UGE(c, 97), z3.ULE(c, 122)), c == 0xE9, c == 0x4E2D, c == 0x1F600) for c in chars]
    ex = Explorer()
    result = {"chars": T, "max_inline_events": K, "violations": [], "panics": [], "functions": set()}

    def width(c):
        t = z3.ZeroExt(32, c)
        return z3.If(z3.ULT(t, 0x80), z3.BitVecVal(1, 64),
                     z3.If(z3.ULT(t, 0x800), z3.BitVecVal(2, 64), z3.If(z3.ULT(t, 0x10000), z3.BitVecVal(3, 64), z3.BitVecVal(4, 64))))

    prefix = [z3.BitVecVal(0, 64)]
    for c in chars:
        prefix.append(prefix[-1] + width(c))

    def describe(model, shape, which=None):
        if model is None:
            return None
        cs = [model.eval(c, model_completion=True).as_long() for c in chars]
        d = {"text": "".join(chr(c) for c in cs), "chars": cs, "events": shape,
             "ignore_link_title": bool(z3.is_true(model.eval(opt, model_completion=True)))}
        inl = [e for e in shape[1:] if isinstance(e, list)]
        if inl:
            # replay hint: the inline construct concerned (default: the last one) and the characters of its source
            kind, p, q = inl[which if which is not None and which < len(inl) else -1]
            d["construct"] = kind
            if kind in ("link", "code"):
                p, q = p + 1, q - 1
            d["x"] = "".join(chr(c) for c in cs[p:q])
            if any(e[0] == "entity" for e in inl):
                d["construct"] = "entity"
        return d

    def body(ctx):
        try:
            body_(ctx)
        except PathEnd:
            pass

    def body_(ctx):
        for c in chars:
            ctx.assume(z3.And(z3.ULE(c, 0x10FFFF), z3.Or(z3.ULT(c, 0xD800), z3.UGT(c, 0xDFFF)), c != 0))
        src = VecObj([Int(c, 32) for c in chars])
        seen = []
        shape = []

        def brange(p, q):
            return Adt("std::ops::Range::<usize>", [Int(prefix[p]), Int(prefix[q])])

        def cow(p, q):
            return StringObj([Int(c, 32) for c in chars[p:q]])

        def ev(name, *fields):
            return Enum(name, EV.index(name), list(fields))

        def tag(name):
            return Enum(name, TG.index(name), [])

        def tag_end(name):
            return Enum(name, TE.index(name), [])

        def pick(sel, cands):
            ctx.assume(z3.Or(*[sel == z3.BitVecVal(c, sel.size()) for c in cands]))
            return ctx.choose(sel, cands)

        # ---- the event stream (the stub's contract) and the tokens it must produce
        block = BLOCKS[pick(sel_block, list(range(len(BLOCKS))))]
        n_inline = pick(sel_n, list(range(K + 1)))
        ignore = ctx.branch(opt)
        events = [Tup([ev("Start", tag(block)), brange(0, T)])]
        expected = []
        shape.append(block)
        cursor = 0
        linted = block in LINTED_BLOCKS
        for i in range(n_inline):
            if cursor >= T:
                raise PathEnd()
            kind = INLINE[pick(sel_kind[i], list(range(len(INLINE))))]
            p = pick(sel_p[i], list(range(cursor, T)))
            if kind in ("softbreak", "hardbreak"):
                q = p + 1
            else:
                q = pick(sel_q[i], list(range(p + 1, T + 1)))
            shape.append([kind, p, q])
            if kind == "text":
                events.append(Tup([ev("Text", cow(p, q)), brange(p, q)]))
                if block == "CodeBlock":
                    expected.append((p, q, "Unlintable", i))
                elif linted:
                    expected.append((p, q, "Word", i))
            elif kind == "entity":
                # an HTML entity (`&copy;`): at least three source characters, the event's text is ONE decoded character of
                # any UTF-8 width (so the text's length differs from its source's, in chars and in bytes)
                if q - p < 3:
                    raise PathEnd()
                dec = z3.BitVec(f"decoded{i}", 32)
                ctx.assume(z3.And(z3.ULE(dec, 0x10FFFF), z3.Or(z3.ULT(dec, 0xD800), z3.UGT(dec, 0xDFFF)), dec != 0))
                events.append(Tup([ev("Text", StringObj([Int(dec, 32)])), brange(p, q)]))
                if block == "CodeBlock":
                    expected.append((p, q, "Unlintable", i, "loose"))
                elif linted:
                    expected.append((p, q, "Word", i, "loose"))
            elif kind == "code":
                if q - p < 3:
                    raise PathEnd()  # a code span has two delimiters and a non-empty content ("``" is literal text)
                events.append(Tup([ev("Code", cow(p + 1, q - 1)), brange(p, q)]))
                expected.append((p, q - 2, "Unlintable", i))
            elif kind in ("inline_html", "html"):
                events.append(Tup([ev("InlineHtml" if kind == "inline_html" else "Html", cow(p, q)), brange(p, q)]))
                expected.append((p, q, "Unlintable", i))
            elif kind == "softbreak":
                events.append(Tup([ev("SoftBreak"), brange(p, q)]))
                expected.append((p, p + 1, "Newline", i))
            elif kind == "hardbreak":
                events.append(Tup([ev("HardBreak"), brange(p, q)]))
                expected.append((p, p + 1, "Newline", i))
            elif kind == "link":
                # [title](dest): the title text starts one char into the link and ends before its last char
                if q - p < 3:
                    raise PathEnd()
                events.append(Tup([ev("Start", tag("Link")), brange(p, q)]))
                events.append(Tup([ev("Text", cow(p + 1, q - 1)), brange(p + 1, q - 1)]))
                events.append(Tup([ev("End", tag_end("Link")), brange(p, q)]))
                expected.append((p + 1, q - 1, "Unlintable" if ignore else "Word", i))
            cursor = q
        events.append(Tup([ev("End", tag_end(block)), brange(0, T)]))
        last_start = expected_last_start = None

        def inner_parse(it, callee, args):
            sl = as_slice(args[1])
            if sl.vec is not src:
                raise Unsupported("the inner parser was handed something that is not a slice of the text")
            seen.append((sl.lo, sl.hi))
            n = sl.hi - sl.lo
            if n == 0:
                return VecObj([])
            return VecObj([Adt("Token", [Adt("Span", [Int(z3.BitVecVal(0, 64)), Int(z3.BitVecVal(n, 64))]),
                                         Enum("Word", TK.index("Word"), [Enum("None", 0, [])])])])

        def string_index(it, callee, args):
            """<String as Index<Range<usize>>>::index with byte offsets: panics unless both are char boundaries"""
            s = deref(args[0])
            lo, hi = args[1].fields
            n = len(s.chars)
            pre = [z3.BitVecVal(0, 64)]
            for c in s.chars:
                pre.append(pre[-1] + width(c.t))
            ok_c = z3.And(z3.Or(*[lo.t == x for x in pre]), z3.Or(*[hi.t == x for x in pre]), z3.ULE(lo.t, hi.t))
            ok, model = it.ctx.valid(ok_c)
            if not ok:
                it.panics.append(("byte index is out of range or not a char boundary of the string", "<String as Index<Range<usize>>>::index", model))
                if not it.ctx.branch(ok_c):
                    raise PathEnd()
            klo = khi = None
            for k in range(n + 1):
                if it.ctx.branch(lo.t == pre[k]):
                    klo = k
                    break
            for k in range(klo, n + 1):
                if it.ctx.branch(hi.t == pre[k]):
                    khi = k
                    break
            if klo is None or khi is None:
                raise Unsupported("string index: no boundary found")
            return StringObj(s.chars[klo:khi])

        resolve = {
            r"^<PlainEnglish as (parsers::)?Parser>::parse$": inner_parse,
            r"^pulldown_cmark::_::<impl Options>::(all|difference)$": lambda it, c, a: Int(z3.BitVecVal(0, 32), 32, False),
            r"^pulldown_cmark::Parser::<'_>::new_ext$": lambda it, c, a: Adt("StubMarkdownParser", [a[0]]),
            r"^pulldown_cmark::Parser::<'_>::into_offset_iter$": lambda it, c, a: SeqIter(list(events)),
            r"^<OffsetIter<'_> as IntoIterator>::into_iter$": lambda it, c, a: a[0],
            r"^<OffsetIter<'_> as Iterator>::next$": lambda it, c, a: (lambda x: some(x) if x is not None else Enum("None", 0, []))(deref(a[0]).next(it)),
            r"^<CowStr<'_> as Deref>::deref$": lambda it, c, a: deref(a[0]),
            r"^<(std::string::)?String as (std::ops::)?Index<(std::ops::)?Range<usize>>>::index$": string_index,
        }
        it = Interp(raw, MODELS, ctx, resolve, enums=enums)
        md = Adt("Markdown", [Adt("MarkdownOptions", [opt])])
        out = None
        try:
            out = it.call_fn(fn, [Ref(Cell(md)), SliceRef(src, 0, T)])
        except (PathEnd, Infeasible):
            pass
        result["functions"] |= it.called
        for msg, where, model in it.panics:
            if model is not None and ctx.ex.solver.check(*nice) == z3.sat:
                model = ctx.ex.solver.model()
            result["panics"].append({"msg": msg, "where": where, "input": describe(model, shape)})
        if out is None:
            return
        toks = [c.v for c in out.elems]
        claims = []
        # the closing paragraph break is popped again unless the text ends in a line feed
        content = list(toks)
        if content and content[-1].fields[1].variant == "ParagraphBreak":
            pb = content.pop()
            claims.append((z3.And(pb.fields[0].fields[0].t == pb.fields[0].fields[1].t, z3.ULE(pb.fields[0].fields[1].t, T)),
                           "the closing paragraph break is not a zero-width token inside the text"))
            claims.append((chars[T - 1] == 10, "a trailing paragraph break was kept although the text does not end in a line feed"))
        want_seen = [e_ for e_ in expected if e_[2] == "Word"]
        same_seen = len(seen) == len(want_seen) and all(
            (e_[0] <= lo_ and hi_ <= e_[1]) if len(e_) > 4 else (lo_, hi_) == (e_[0], e_[1]) for (lo_, hi_), e_ in zip(seen, want_seen))
        if not same_seen:
            claims.append((z3.BoolVal(False), f"the plain-English parser was handed the slices {seen}, the text events cover {[e_[:2] for e_ in want_seen]}"))
        if len(content) != len(expected):
            # the last expected token may legitimately have been popped (a Newline at the very end)
            if len(content) == len(expected) - 1 and expected and expected[-1][2] == "Newline":
                claims.append((chars[T - 1] != 10, "a token was dropped"))
                exp = expected[:-1]
            else:
                claims.append((z3.BoolVal(False), f"{len(content)} tokens were produced for events that cover {len(expected)} pieces of text"))
                exp = []
        else:
            exp = expected
        for t, ex_ in zip(content, exp):
            a, b, k, ei = ex_[:4]
            s_, e_ = t.fields[0].fields[0].t, t.fields[0].fields[1].t
            if len(ex_) > 4:
                # an entity: its token must lie inside the entity's source (where exactly is not prescribed)
                claims.append((z3.And(z3.ULE(a, s_), z3.ULE(s_, e_), z3.ULE(e_, b)),
                               f"the token for the entity over chars [{a}, {b}) does not lie inside the entity", ei))
                continue
            claims.append((z3.And(s_ == a, e_ == b),
                           f"the {k} token for the event over chars [{a}, {b}) is not located on those characters", ei))
            if t.fields[1].variant != k:
                claims.append((z3.BoolVal(False), f"the event over chars [{a}, {b}) became a {t.fields[1].variant} token, not {k}", ei))
        prev_end = None
        for t in toks:
            s_, e_ = t.fields[0].fields[0].t, t.fields[0].fields[1].t
            claims.append((z3.And(z3.ULE(s_, e_), z3.ULE(e_, T)), "a token lies outside the text"))
            if t.fields[1].variant not in ("ParagraphBreak", "Newline"):
                claims.append((z3.ULT(s_, e_), f"a zero-width token is a {t.fields[1].variant}, not a structural break"))
            if prev_end is not None:
                claims.append((z3.Or(s_ == e_, z3.ULE(prev_end, s_)), "tokens covering characters are out of order or overlap"))
            prev_end = z3.If(s_ == e_, prev_end, e_) if prev_end is not None else e_
        for cl in claims:
            claim, what = cl[0], cl[1]
            ok, model = ctx.valid(claim, nice)
            if not ok:
                result["violations"].append({"what": what, "input": describe(model, shape, cl[2] if len(cl) > 2 else None)})
                break

    t0 = time.time()
    ex.run(body)
    result.update(paths=ex.stats["paths"], solver_queries=ex.stats["queries"], solver_s=round(ex.stats["solver_s"], 3),
                  forks=ex.stats["forks"], wall_s=round(time.time() - t0, 2), functions=sorted(result["functions"]))
    result["violations"] = result["violations"][:5]
    result["panics"] = result["panics"][:5]
    return result


if __name__ == "__main__":
    try:
        r = run(sys.argv[1], int(sys.argv[2]), int(sys.argv[3]), sys.argv[4], sys.argv[5], sys.argv[6].split(",") if len(sys.argv) > 6 else None)
        r["status"] = "violated" if (r["violations"] or r["panics"]) else "holds"
    except Unsupported as e:
        r = {"status": "unsupported", "why": str(e)}
    print(json.dumps(r))

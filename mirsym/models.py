"""Hand-written models of the standard-library calls that the executed harper functions make.
Each model states the contract it assumes; the list of models a run used is part of the evidence.
"""
import re
import z3
from mir import Unsupported, split_top
from exec import Int, Tup, Adt, Enum, Cell, Ref, BoxRef, copy_val, PathEnd


class VecObj:
    """Vec<T>: a list of cells (concrete length on each path)"""
    heap = True

    def __init__(self, elems):
        self.elems = [e if isinstance(e, Cell) else Cell(e) for e in elems]


class SliceRef:
    """&[T] / &mut [T] into a VecObj"""

    def __init__(self, vec, lo, hi):
        self.vec, self.lo, self.hi = vec, lo, hi

    def get(self):  # behaves like a Ref to an unsized place
        return self

    def __len__(self):
        return self.hi - self.lo


class DequeObj:
    heap = True

    def __init__(self):
        self.items = []


class SeqIter:
    """a finite, double-ended sequence of already-known items (e.g. references to the cells of a slice)"""

    def __init__(self, items):
        self.items, self.lo, self.hi = list(items), 0, len(items)

    def next(self, it=None):
        if self.lo < self.hi:
            self.lo += 1
            return self.items[self.lo - 1]
        return None

    def next_back(self, it=None):
        if self.lo < self.hi:
            self.hi -= 1
            return self.items[self.hi]
        return None

    def remaining(self):
        return self.items[self.lo:self.hi]


class LazyIter:
    """an iterator adaptor: a python generator pulling from inner iterators (closures are executed from their MIR)"""

    def __init__(self, gen):
        self.gen = gen

    def next(self, it=None):
        try:
            return next(self.gen)
        except StopIteration:
            return None


def usize(n):
    return Int(z3.BitVecVal(n, 64), 64, False)


def deref(x):
    """follow a Ref to the heap object it designates"""
    while isinstance(x, Ref):
        x = x.get()
    return x


def some(v):
    return Enum("Some", 1, [v])


NONE = lambda: Enum("None", 0, [])


def as_slice(x):
    x = deref(x)
    if isinstance(x, Enum) and x.variant in ("Borrowed", "Owned") and len(x.fields) == 1:
        x = deref(x.fields[0])  # Cow<[T]>
    if isinstance(x, VecObj):
        return SliceRef(x, 0, len(x.elems))
    if isinstance(x, SliceRef):
        return x
    raise Unsupported(f"not a slice: {type(x)}")


def slice_refs(sl):
    return [Ref(sl.vec.elems[sl.lo + i]) for i in range(len(sl))]


def drain(itobj, it):
    out = []
    while True:
        x = itobj.next(it)
        if x is None:
            return out
        out.append(x)


def call_pred(it, clos, args):
    """call a closure returning bool and decide the result (forks when symbolic)"""
    r = it.call_closure(clos, args)
    return it.ctx.branch(r)


# ---- Vec / VecDeque / slices
def m_vec_len(it, callee, args, m):
    v = deref(args[0])
    if isinstance(v, SliceRef):
        return usize(len(v))
    if isinstance(v, DequeObj):
        return usize(len(v.items))
    return usize(len(v.elems))


def m_is_empty(it, callee, args, m):
    v = deref(args[0])
    n = len(v) if isinstance(v, SliceRef) else len(v.items) if isinstance(v, DequeObj) else len(v.elems)
    return z3.BoolVal(n == 0)


def m_vec_new(it, callee, args, m):
    return VecObj([])


def m_vec_push(it, callee, args, m):
    deref(args[0]).elems.append(Cell(args[1]))
    return ()


def m_vec_pop(it, callee, args, m):
    v = deref(args[0])
    if v.elems:
        return some(v.elems.pop().v)
    return NONE()


def m_vec_clear(it, callee, args, m):
    deref(args[0]).elems = []
    return ()


def m_deque_new(it, callee, args, m):
    return DequeObj()


def m_deque_push_back(it, callee, args, m):
    deref(args[0]).items.append(args[1])
    return ()


def m_deque_pop_front(it, callee, args, m):
    d = deref(args[0])
    if d.items:
        return some(d.items.pop(0))
    return NONE()


def m_deque_extend(it, callee, args, m):
    d = deref(args[0])
    src = args[1]
    if is_range(src):
        lo, hi = src.fields[0], src.fields[1]
        i = lo
        # concrete-shape requirement: the range bounds must be concretisable
        lo_c = concretise(it, lo)
        hi_c = concretise(it, hi)
        for k in range(lo_c, hi_c):
            d.items.append(usize(k))
        return ()
    for x in drain(to_iter(src), it):
        d.items.append(x)
    return ()


def concretise(it, v, limit=64):
    t = z3.simplify(v.t)
    if z3.is_bv_value(t):
        return t.as_long()
    return it.ctx.choose(v.t, list(range(limit)))


def m_vec_deref(it, callee, args, m):
    return as_slice(args[0])


def m_slice_iter(it, callee, args, m):
    return SeqIter(slice_refs(as_slice(args[0])))


def m_slice_windows(it, callee, args, m):
    sl = as_slice(args[0])
    k = concretise(it, args[1])
    if k == 0:
        it.panics.append(("window size must be non-zero", "slice::windows", it.ctx.ex.solver.model() if it.ctx.ex.check() == z3.sat else None))
        raise PathEnd()
    return SeqIter([SliceRef(sl.vec, sl.lo + i, sl.lo + i + k) for i in range(0, max(0, len(sl) - k + 1))])


def m_slice_split(it, callee, args, m):
    """<[T]>::split(pred): sub-slices separated by elements matching pred (the separators are not included)"""
    sl = as_slice(args[0])
    clos = args[1]

    def gen():
        start = 0
        n = len(sl)
        for i in range(n):
            if call_pred(it, clos, [Ref(sl.vec.elems[sl.lo + i])]):
                yield SliceRef(sl.vec, sl.lo + start, sl.lo + i)
                start = i + 1
        yield SliceRef(sl.vec, sl.lo + start, sl.lo + n)
    return LazyIter(gen())


def m_slice_chunks(it, callee, args, m):
    """<[T]>::chunks / chunks_exact(k): consecutive sub-slices of k elements (chunks: plus a shorter last one); k concrete (<= 8)"""
    sl = as_slice(args[0])
    k = it.ctx.choose(args[1].t, list(range(1, 9)))
    out, i, n = [], 0, len(sl)
    while i + k <= n:
        out.append(SliceRef(sl.vec, sl.lo + i, sl.lo + i + k))
        i += k
    if i < n and "chunks_exact" not in callee:
        out.append(SliceRef(sl.vec, sl.lo + i, sl.lo + n))
    return SeqIter(out)


def m_slice_first(it, callee, args, m):
    sl = as_slice(args[0])
    return some(Ref(sl.vec.elems[sl.lo])) if len(sl) else NONE()


def m_slice_last(it, callee, args, m):
    sl = as_slice(args[0])
    return some(Ref(sl.vec.elems[sl.hi - 1])) if len(sl) else NONE()


def m_slice_get(it, callee, args, m):
    sl = as_slice(args[0])
    idx = args[1]
    if not isinstance(idx, Int):
        raise Unsupported("slice::get with a range")
    n = len(sl)
    if n == 0 or not it.ctx.branch(z3.ULT(idx.t, z3.BitVecVal(n, 64))):
        return NONE()
    i = it.ctx.choose(idx.t, list(range(n)))
    return some(Ref(sl.vec.elems[sl.lo + i]))


def m_slice_swap(it, callee, args, m):
    sl = as_slice(args[0])
    i = it.concretise_index(args[1], len(sl))
    j = it.concretise_index(args[2], len(sl))
    a, b = sl.vec.elems[sl.lo + i], sl.vec.elems[sl.lo + j]
    a.v, b.v = b.v, a.v
    return ()


def m_index(it, callee, args, m):
    """<Vec<T>/[T] as Index<usize | Range..>>::index"""
    base = as_slice(args[0])
    idx = args[1]
    if isinstance(idx, Int):
        i = it.concretise_index(idx, len(base))
        return Ref(base.vec.elems[base.lo + i])
    if isinstance(idx, Adt):
        kind = [y for y in re.sub(r"<.*>", "", idx.name).split("::") if y][-1]
        n = len(base)
        if kind == "Range":
            lo, hi = idx.fields
        elif kind == "RangeFrom":
            lo, hi = idx.fields[0], usize(n)
        elif kind == "RangeTo":
            lo, hi = usize(0), idx.fields[0]
        elif kind == "RangeFull":
            lo, hi = usize(0), usize(n)
        elif kind == "RangeInclusive":
            lo, hi = idx.fields[0], Int(idx.fields[1].t + 1)
        else:
            raise Unsupported(f"index by {idx.name}")
        ok_c = z3.And(z3.ULE(lo.t, hi.t), z3.ULE(hi.t, z3.BitVecVal(n, 64)))
        ok, model = it.ctx.valid(ok_c)
        if not ok:
            it.panics.append(("slice index out of range", "Index::index", model))
            if not it.ctx.branch(ok_c):
                raise PathEnd()
        lo_c = it.ctx.choose(lo.t, list(range(n + 1)))
        hi_c = it.ctx.choose(hi.t, list(range(lo_c, n + 1)))
        return SliceRef(base.vec, base.lo + lo_c, base.lo + hi_c)
    raise Unsupported(f"index by {type(idx)}")


# ---- iterators
class RangeIter:
    """std::ops::Range<usize> used as an iterator (bounds may be symbolic; each step forks on start < end)"""

    def __init__(self, adt):
        self.adt = adt

    def next(self, it=None):
        lo, hi = self.adt.fields[0], self.adt.fields[1]
        if it.ctx.branch(z3.ULT(lo.t, hi.t)):
            self.adt.fields[0] = Int(lo.t + 1, lo.bits, lo.signed)
            return lo
        return None


class RangeIncIter:
    """std::ops::RangeInclusive<int> used as an iterator (bounds may be symbolic; each step forks on start <= end)"""

    def __init__(self, adt):
        self.adt = adt
        if len(adt.fields) < 3:
            adt.fields.append(False)  # exhausted

    def next(self, it=None):
        if self.adt.fields[2]:
            return None
        lo, hi = self.adt.fields[0], self.adt.fields[1]
        le = (lo.t <= hi.t) if lo.signed else z3.ULE(lo.t, hi.t)
        if not it.ctx.branch(le):
            self.adt.fields[2] = True
            return None
        if it.ctx.branch(lo.t == hi.t):
            self.adt.fields[2] = True
        else:
            self.adt.fields[0] = Int(lo.t + 1, lo.bits, lo.signed)
        return lo


def is_range_inc(x):
    return isinstance(x, Adt) and [y for y in re.sub(r"<.*>", "", x.name).split("::") if y][-1:] == ["RangeInclusive"]


def is_range(x):
    return isinstance(x, Adt) and [y for y in re.sub(r"<.*>", "", x.name).split("::") if y][-1:] == ["Range"]


def to_iter(x):
    x = deref(x) if isinstance(x, Ref) else x
    if isinstance(x, (SeqIter, LazyIter, RangeIter, PeekIter)):
        return x
    if is_range(x):
        return RangeIter(x)
    if is_range_inc(x):
        return RangeIncIter(x)
    if isinstance(x, RangeIncIter):
        return x
    if isinstance(x, Enum) and x.variant in ("Some", "None"):
        return SeqIter([x.fields[0]] if x.variant == "Some" else [])
    if isinstance(x, MapObj):
        return SeqIter([Tup([Ref(Cell(k)), Ref(c)]) for k, c in x.entries])
    if isinstance(x, (VecObj, SliceRef)):
        return SeqIter(slice_refs(as_slice(x)))
    raise Unsupported(f"not an iterator: {type(x)} {getattr(x, 'name', '')}")


def m_vec_into_iter_by_value(it, callee, args, m):
    v = args[0]
    return SeqIter([c.v for c in v.elems])


def m_into_iter(it, callee, args, m):
    x = args[0]
    if isinstance(x, (SeqIter, LazyIter, RangeIter)) or is_range(x) or is_range_inc(x):
        return x
    return to_iter(x)


def m_enumerate(it, callee, args, m):
    inner = to_iter(args[0])

    def gen():
        i = 0
        while True:
            x = inner.next(it)
            if x is None:
                return
            yield Tup([usize(i), x])
            i += 1
    return LazyIter(gen())


def m_rev(it, callee, args, m):
    inner = to_iter(args[0])
    items = drain(inner, it) if isinstance(inner, LazyIter) else inner.remaining()
    return SeqIter(list(reversed(items)))


def m_map(it, callee, args, m):
    inner, clos = to_iter(args[0]), args[1]

    def gen():
        while True:
            x = inner.next(it)
            if x is None:
                return
            yield it.call_closure(clos, [x])
    lz = LazyIter(gen())
    if isinstance(inner, SeqIter):
        lz.exact = inner  # Map<slice::Iter> is an ExactSizeIterator: as many items as its inner iterator still holds
    return lz


def m_filter(it, callee, args, m):
    inner, clos = to_iter(args[0]), args[1]

    def gen():
        while True:
            x = inner.next(it)
            if x is None:
                return
            if call_pred(it, clos, [Ref(Cell(x))]):
                yield x
    return LazyIter(gen())


def m_filter_map(it, callee, args, m):
    inner, clos = to_iter(args[0]), args[1]

    def gen():
        while True:
            x = inner.next(it)
            if x is None:
                return
            r = it.call_closure(clos, [x])
            if r.variant == "Some":
                yield r.fields[0]
    return LazyIter(gen())


def m_flat_map(it, callee, args, m):
    inner, clos = to_iter(args[0]), args[1]

    def gen():
        while True:
            x = inner.next(it)
            if x is None:
                return
            r = it.call_closure(clos, [x])
            # a Vec returned by value is consumed by value (its elements, not references to them)
            sub = SeqIter([c.v for c in r.elems]) if isinstance(r, VecObj) else to_iter(r)
            while True:
                y = sub.next(it)
                if y is None:
                    break
                yield y
    return LazyIter(gen())


def m_flatten(it, callee, args, m):
    """Iterator::flatten: items are Options (by value or by reference) or other iterables"""
    inner = to_iter(args[0])

    def gen():
        while True:
            x = inner.next(it)
            if x is None:
                return
            tgt = x.get() if isinstance(x, Ref) else x
            if isinstance(x, Ref) and isinstance(tgt, Enum) and tgt.variant in ("Some", "None"):
                # &Option<T> yields &T
                if tgt.variant == "Some":
                    yield Ref(x.cell, x.path + (("field", 0),))
                continue
            sub = to_iter(x)
            while True:
                y = sub.next(it)
                if y is None:
                    break
                yield y
    return LazyIter(gen())


def m_array_into_iter(it, callee, args, m):
    a = deref(args[0])
    return SeqIter([c.v for c in a.elems])


def int_lt(it, a, b):
    return it.ctx.branch(z3.ULT(a.t, b.t) if not a.signed else a.t < b.t)


def m_minmax(it, callee, args, m):
    """itertools::Itertools::minmax over integers: NoElements / OneElement(x) / MinMax(min, max)"""
    xs = drain(to_iter(args[0]), it)
    vs = it.enums.get("MinMaxResult") or ["NoElements", "OneElement", "MinMax"]
    if not xs:
        return Enum("NoElements", vs.index("NoElements"), [])
    if len(xs) == 1:
        return Enum("OneElement", vs.index("OneElement"), [xs[0]])
    lo = hi = xs[0]
    for x in xs[1:]:
        if int_lt(it, x, lo):
            lo = x
        elif not int_lt(it, x, hi):
            hi = x
    return Enum("MinMax", vs.index("MinMax"), [lo, hi])


def m_zip(it, callee, args, m):
    a, b = to_iter(args[0]), to_iter(args[1])

    def gen():
        while True:
            x = a.next(it)
            if x is None:
                return
            y = b.next(it)
            if y is None:
                return
            yield Tup([x, y])
    return LazyIter(gen())


def m_skip(it, callee, args, m):
    inner = to_iter(args[0])
    k = concretise(it, args[1])
    for _ in range(k):
        if inner.next(it) is None:
            break
    return inner


def m_take(it, callee, args, m):
    inner = to_iter(args[0])
    k = concretise(it, args[1])

    def gen():
        for _ in range(k):
            x = inner.next(it)
            if x is None:
                return
            yield x
    return LazyIter(gen())


def m_take_while(it, callee, args, m):
    inner, clos = to_iter(args[0]), args[1]

    def gen():
        while True:
            x = inner.next(it)
            if x is None:
                return
            if not call_pred(it, clos, [Ref(Cell(x))]):
                return
            yield x
    return LazyIter(gen())


def m_skip_while(it, callee, args, m):
    inner, clos = to_iter(args[0]), args[1]

    def gen():
        skipping = True
        while True:
            x = inner.next(it)
            if x is None:
                return
            if skipping and call_pred(it, clos, [Ref(Cell(x))]):
                continue
            skipping = False
            yield x
    return LazyIter(gen())


def m_nth(it, callee, args, m):
    inner = to_iter(args[0])
    k = concretise(it, args[1])
    x = None
    for _ in range(k + 1):
        x = inner.next(it)
        if x is None:
            return NONE()
    return some(x)


def m_sum_usize(it, callee, args, m):
    total = z3.BitVecVal(0, 64)
    for x in drain(to_iter(args[0]), it):
        total = total + deref(x).t
    return Int(total)


def m_sum_int(it, callee, args, m):
    """Iterator::sum::<uN>: panics on overflow when overflow checks are on (they are in the MIR we execute)"""
    bits = {"u8": 8, "u16": 16, "u32": 32, "u64": 64}[m.group("ty")]
    wide = z3.BitVecVal(0, bits + 16)
    for x in drain(to_iter(args[0]), it):
        wide = wide + z3.ZeroExt(16, deref(x).t)
    ok_c = z3.ULT(wide, z3.BitVecVal(1 << bits, bits + 16))
    ok, model = it.ctx.valid(ok_c)
    if not ok:
        it.panics.append(("attempt to add with overflow", "Iterator::sum", model))
        if not it.ctx.branch(ok_c):
            raise PathEnd()
    return Int(z3.Extract(bits - 1, 0, wide), bits, False)


def m_exact_len(it, callee, args, m):
    x = deref(args[0])
    if isinstance(x, SeqIter):
        return usize(x.hi - x.lo)
    if isinstance(x, LazyIter) and getattr(x, "exact", None) is not None:
        return usize(x.exact.hi - x.exact.lo)
    raise Unsupported(f"ExactSizeIterator::len of {type(x).__name__}")


class HashObj:
    """hashbrown / std HashMap as an association list; keys are compared structurally (forking when symbolic); iteration
    order is unspecified in Rust, so iterating is not modelled"""
    heap = True

    def __init__(self):
        self.entries = []


def m_hash_new(it, callee, args, m):
    return HashObj()


def m_hash_get(it, callee, args, m):
    h, key = deref(args[0]), args[1]
    for k, cell in h.entries:
        if val_eq(it, k, key):
            return some(Ref(cell))
    return NONE()


def m_hash_contains(it, callee, args, m):
    return z3.BoolVal(m_hash_get(it, callee, args, m).variant == "Some")


def m_hash_insert(it, callee, args, m):
    h, key, val = deref(args[0]), args[1], args[2]
    for ent in h.entries:
        if val_eq(it, ent[0], key):
            old = ent[1].v
            ent[1].v = val
            return some(old)
    h.entries.append([key, Cell(val)])
    return NONE()


def m_hash_keys(it, callee, args, m):
    """HashMap::keys: Rust leaves the order unspecified; the model iterates in insertion order (one of the allowed orders)"""
    h = deref(args[0])
    return SeqIter([Ref(Cell(k)) for k, _c in h.entries])


def m_hash_values(it, callee, args, m):
    """HashMap::values: insertion order (one of the orders Rust allows; callers must not depend on it)"""
    h = deref(args[0])
    return SeqIter([Ref(c) for _k, c in h.entries])


def m_hash_len(it, callee, args, m):
    return usize(len(deref(args[0]).entries))


def m_hash_from_array(it, callee, args, m):
    h = HashObj()
    sl = as_slice(args[0])
    for i in range(len(sl)):
        kv = sl.vec.elems[sl.lo + i].v
        m_hash_insert(it, callee, [Ref(Cell(h)), kv.items[0], kv.items[1]], m)
    return h


def m_slice_ends_with(it, callee, args, m):
    a, b = as_slice(args[0]), as_slice(args[1])
    if len(b) > len(a):
        return z3.BoolVal(False)
    off = len(a) - len(b)
    parts = [sym_eq(a.vec.elems[a.lo + off + i].v, b.vec.elems[b.lo + i].v) for i in range(len(b))]
    return z3.And(*parts) if parts else z3.BoolVal(True)


def m_slice_starts_with(it, callee, args, m):
    a, b = as_slice(args[0]), as_slice(args[1])
    if len(b) > len(a):
        return z3.BoolVal(False)
    parts = [sym_eq(a.vec.elems[a.lo + i].v, b.vec.elems[b.lo + i].v) for i in range(len(b))]
    return z3.And(*parts) if parts else z3.BoolVal(True)


def m_explicit_panic(it, callee, args, m):
    """panic!(), unreachable!(), unimplemented!(), assert!() failures: reaching the call on a feasible path is a panic"""
    msg = "explicit panic"
    if args:
        a = deref(args[0]) if isinstance(args[0], Ref) else args[0]
        if isinstance(a, StringObj):
            try:
                msg = "".join(chr(z3.simplify(c.t).as_long()) for c in a.chars)
            except Exception:
                pass
    ok, model = it.ctx.valid(z3.BoolVal(False))
    it.panics.append((msg, "call of " + callee, model))
    raise PathEnd()


def seq_eq_term(xs, ys):
    if len(xs) != len(ys):
        return z3.BoolVal(False)
    parts = [sym_eq(x, y) for x, y in zip(xs, ys)]
    return z3.And(*parts) if parts else z3.BoolVal(True)


def m_str_eq(it, callee, args, m):
    a, b = deref(args[0]), deref(args[1])
    return seq_eq_term(a.chars, b.chars)


def m_slice_eq(it, callee, args, m):
    a, b = as_slice(args[0]), as_slice(args[1])
    return seq_eq_term([a.vec.elems[a.lo + i].v for i in range(len(a))], [b.vec.elems[b.lo + i].v for i in range(len(b))])


def m_str_join(it, callee, args, m):
    parts, sep = as_slice(args[0]), deref(args[1])
    out = []
    for i in range(len(parts)):
        if i:
            out += [copy_val(c) for c in sep.chars]
        out += [copy_val(c) for c in deref(parts.vec.elems[parts.lo + i].v).chars]
    return StringObj(out)


def m_str_lines(it, callee, args, m):
    """str::lines: split at line feeds (decided by forking on each character), a trailing carriage return of a line is
    stripped, a final empty line is not yielded"""
    src = deref(args[0])
    lines, cur = [], []
    n = len(src.chars)
    for i, c in enumerate(src.chars):
        if it.ctx.branch(c.t == 10):
            if cur and it.ctx.branch(cur[-1].t == 13):
                cur = cur[:-1]
            lines.append(cur)
            cur = []
        else:
            cur.append(c)
    if cur:
        lines.append(cur)
    return SeqIter([Ref(Cell(StringObj(l))) for l in lines])


def m_str_to_ascii_lowercase(it, callee, args, m):
    return StringObj([Int(ascii_lower(c), 32, False) for c in deref(args[0]).chars])


def m_correct_capitalization(it, callee, args, m):
    """Dictionary::get_correct_capitalization_of on a stub dictionary: unknown word, or some spelling of the same length"""
    sl = as_slice(args[1])
    pick = fresh_bool("dictionary-knows")
    if not it.ctx.branch(pick):
        return NONE()
    _fresh[0] += 1
    cs = []
    for i in range(len(sl)):
        c = z3.BitVec(f"capitalization!{_fresh[0]}_{i}", 32)
        it.ctx.assume(z3.And(z3.ULE(c, 0x10FFFF), z3.Or(z3.ULT(c, 0xD800), z3.UGT(c, 0xDFFF))))
        cs.append(Int(c, 32, False))
    v = VecObj(cs)
    return some(SliceRef(v, 0, len(cs)))


def m_bool_then(it, callee, args, m):
    if it.ctx.branch(args[0]):
        return some(it.call_closure(args[1], []))
    return NONE()


def m_fmt_argument(it, callee, args, m):
    return Adt("FmtArgument", [args[0]])


def m_fmt_arguments(it, callee, args, m):
    return Adt("FmtArguments", list(args))


def fmt_text_of(v):
    """the characters a Display argument renders to, when it is text (str / String / char / [char] collected) - else None"""
    for _ in range(6):
        if isinstance(v, Ref):
            v = v.get()
        else:
            break
    if isinstance(v, StringObj):
        return list(v.chars)
    if isinstance(v, Int) and v.bits == 32:
        return [v]
    return None


def m_fmt_format(it, callee, args, m):
    """format!(..) / alloc::fmt::format. With rustc's byte template (`Arguments::new(b"..", &args)`: 0xC0 = next argument with
    default formatting, n < 0x80 = a literal of n bytes, 0 = end) and text arguments the result is the real string;
    otherwise the text is opaque (nothing may inspect it)."""
    fa = deref(args[0]) if args else None
    if isinstance(fa, Adt) and fa.name == "FmtArguments" and fa.fields and isinstance(deref(fa.fields[0]), bytes):
        tpl = deref(fa.fields[0])
        fargs = []
        if len(fa.fields) > 1:
            sl = as_slice(fa.fields[1])
            fargs = [sl.vec.elems[sl.lo + i].v for i in range(len(sl))]
        out, i, k, ok = [], 0, 0, True
        while i < len(tpl):
            b = tpl[i]
            if b == 0:
                break
            if b == 0xC0:
                a = fargs[k] if k < len(fargs) else None
                k += 1
                txt = fmt_text_of(a.fields[0]) if isinstance(a, Adt) and a.name == "FmtArgument" and a.fields[0] is not None else None
                if txt is None:
                    ok = False
                    break
                out += [copy_val(c) for c in txt]
                i += 1
            elif b < 0x80:
                lit = tpl[i + 1:i + 1 + b].decode("utf-8", errors="strict")
                out += [Int(z3.BitVecVal(ord(ch), 32), 32, False) for ch in lit]
                i += 1 + b
            else:
                ok = False
                break
        if ok:
            return StringObj(out)
    return Adt("FormattedString", list(args))


def m_fold(it, callee, args, m):
    acc = args[1]
    for x in drain(to_iter(args[0]), it):
        acc = it.call_closure(args[2], [acc, x])
    return acc


def m_iter_max(it, callee, args, m):
    xs = [deref(x) for x in drain(to_iter(args[0]), it)]
    if not xs:
        return NONE()
    best = xs[0]
    for x in xs[1:]:
        if not int_lt(it, x, best):
            best = x
    return some(best)


def m_iter_min(it, callee, args, m):
    xs = [deref(x) for x in drain(to_iter(args[0]), it)]
    if not xs:
        return NONE()
    best = xs[0]
    for x in xs[1:]:
        if int_lt(it, x, best):
            best = x
    return some(best)


def m_cloned(it, callee, args, m):
    inner = to_iter(args[0])

    def gen():
        while True:
            x = inner.next(it)
            if x is None:
                return
            yield copy_val(deref(x))
    return LazyIter(gen())


def m_chain(it, callee, args, m):
    # `iter.chain(vec)`: an owned Vec is consumed by value (IntoIterator for Vec<T> yields T, not &T)
    by_value = lambda x: SeqIter([c.v for c in x.elems]) if isinstance(x, VecObj) else to_iter(x)
    a, b = by_value(args[0]), by_value(args[1])

    def gen():
        for src in (a, b):
            while True:
                x = src.next(it)
                if x is None:
                    break
                yield x
    return LazyIter(gen())


def m_tuple_windows(it, callee, args, m):
    """itertools::Itertools::tuple_windows::<(T, T)>: overlapping pairs of consecutive items (items are cloned)"""
    tm = re.search(r"tuple_windows::<\((.*)\)>$", callee)
    if not tm:
        raise Unsupported("tuple_windows: unknown tuple type")
    k = len(split_top(tm.group(1)))
    inner = to_iter(args[0])

    def gen():
        win = []
        while True:
            cur = inner.next(it)
            if cur is None:
                return
            win.append(cur)
            if len(win) > k:
                win.pop(0)
            if len(win) == k:
                yield Tup([copy_val(x) for x in win])
    return LazyIter(gen())


def m_opt_into_iter(it, callee, args, m):
    o = args[0]
    return SeqIter([o.fields[0]] if o.variant == "Some" else [])


def m_range_inclusive_contains(it, callee, args, m):
    r, x = deref(args[0]), deref(args[1])
    lo, hi = r.fields[0], r.fields[1]
    if lo.signed:
        return z3.And(lo.t <= x.t, x.t <= hi.t)
    return z3.And(z3.ULE(lo.t, x.t), z3.ULE(x.t, hi.t))


def m_range_contains(it, callee, args, m):
    r, x = deref(args[0]), deref(args[1])
    lo, hi = r.fields[0], r.fields[1]
    if lo.signed:
        return z3.And(lo.t <= x.t, x.t < hi.t)
    return z3.And(z3.ULE(lo.t, x.t), z3.ULT(x.t, hi.t))


def m_range_inclusive_new(it, callee, args, m):
    return Adt("RangeInclusive", [args[0], args[1]])


def m_next(it, callee, args, m):
    x = to_iter(args[0]).next(it)
    return NONE() if x is None else some(x)


def m_next_back(it, callee, args, m):
    inner = to_iter(args[0])
    if not isinstance(inner, SeqIter):
        raise Unsupported("next_back on a lazy iterator")
    x = inner.next_back(it)
    return NONE() if x is None else some(x)


def m_all(it, callee, args, m):
    inner, clos = to_iter(args[0]), args[1]
    while True:
        x = inner.next(it)
        if x is None:
            return z3.BoolVal(True)
        if not call_pred(it, clos, [x]):
            return z3.BoolVal(False)


def m_any(it, callee, args, m):
    inner, clos = to_iter(args[0]), args[1]
    while True:
        x = inner.next(it)
        if x is None:
            return z3.BoolVal(False)
        if call_pred(it, clos, [x]):
            return z3.BoolVal(True)


def m_count(it, callee, args, m):
    return usize(len(drain(to_iter(args[0]), it)))


def m_position(it, callee, args, m):
    inner, clos = to_iter(args[0]), args[1]
    i = 0
    while True:
        x = inner.next(it)
        if x is None:
            return NONE()
        if call_pred(it, clos, [x]):
            return some(usize(i))
        i += 1


def m_rposition(it, callee, args, m):
    """Iterator::rposition on an exact-size double-ended iterator: the index (from the front) of the last matching item"""
    inner, clos = to_iter(args[0]), args[1]
    if not isinstance(inner, SeqIter):
        raise Unsupported("rposition on a lazy iterator")
    items = inner.remaining()
    for i in range(len(items) - 1, -1, -1):
        if call_pred(it, clos, [items[i]]):
            return some(usize(i))
    return NONE()


def m_find(it, callee, args, m):
    inner, clos = to_iter(args[0]), args[1]
    while True:
        x = inner.next(it)
        if x is None:
            return NONE()
        if call_pred(it, clos, [Ref(Cell(x))]):
            return some(x)


def m_last(it, callee, args, m):
    xs = drain(to_iter(args[0]), it)
    return some(xs[-1]) if xs else NONE()


def m_collect_vec(it, callee, args, m):
    return VecObj(drain(to_iter(args[0]), it))


def m_for_each(it, callee, args, m):
    inner, clos = to_iter(args[0]), args[1]
    for x in drain(inner, it):
        it.call_closure(clos, [x])
    return ()


# ---- Option
def m_opt_is_some(it, callee, args, m):
    return z3.BoolVal(deref(args[0]).variant == "Some")


def m_opt_is_none(it, callee, args, m):
    return z3.BoolVal(deref(args[0]).variant == "None")


def m_opt_unwrap(it, callee, args, m):
    o = args[0]
    if o.variant == "Some":
        return o.fields[0]
    it.panics.append(("called `Option::unwrap()` on a `None` value", "Option::unwrap", it.ctx.ex.solver.model() if it.ctx.ex.check() == z3.sat else None))
    raise PathEnd()


def m_opt_unwrap_or(it, callee, args, m):
    o = args[0]
    return o.fields[0] if o.variant == "Some" else args[1]


def m_opt_copied(it, callee, args, m):
    o = args[0]
    return some(copy_val(deref(o.fields[0]))) if o.variant == "Some" else NONE()


def m_opt_map(it, callee, args, m):
    o = args[0]
    return some(it.call_closure(args[1], [o.fields[0]])) if o.variant == "Some" else NONE()


def m_opt_try_branch(it, callee, args, m):
    o = args[0]
    if o.variant == "Some":
        return Enum("Continue", 0, [o.fields[0]])
    return Enum("Break", 1, [Enum("None", 0, [])])


def m_opt_from_residual(it, callee, args, m):
    return NONE()


def m_opt_map_or(it, callee, args, m):
    o = args[0]
    return it.call_closure(args[2], [o.fields[0]]) if o.variant == "Some" else args[1]


def m_opt_map_or_else(it, callee, args, m):
    o = args[0]
    return it.call_closure(args[2], [o.fields[0]]) if o.variant == "Some" else it.call_closure(args[1], [])


def m_opt_unwrap_or_else(it, callee, args, m):
    o = args[0]
    return o.fields[0] if o.variant == "Some" else it.call_closure(args[1], [])


def m_opt_and_then(it, callee, args, m):
    o = args[0]
    return it.call_closure(args[1], [o.fields[0]]) if o.variant == "Some" else NONE()


def m_opt_or(it, callee, args, m):
    return args[0] if args[0].variant == "Some" else args[1]


def m_opt_filter(it, callee, args, m):
    o = args[0]
    if o.variant == "Some" and call_pred(it, args[1], [Ref(Cell(o.fields[0]))]):
        return o
    return NONE()


def m_opt_is_some_and(it, callee, args, m):
    o = args[0]
    if o.variant != "Some":
        return z3.BoolVal(False)
    return it.call_closure(args[1], [o.fields[0]])


def ordering(name):
    return Enum(name, ["Less", "Equal", "Greater"].index(name), [])


def m_int_cmp(it, callee, args, m):
    """<usize as Ord>::cmp (decided by forking)"""
    a, b = deref(args[0]), deref(args[1])
    lt = (a.t < b.t) if a.signed else z3.ULT(a.t, b.t)
    if it.ctx.branch(lt):
        return ordering("Less")
    if it.ctx.branch(a.t == b.t):
        return ordering("Equal")
    return ordering("Greater")


def m_binary_search_by(it, callee, args, m):
    """<[T]>::binary_search_by, as implemented by core (the branch-free halving loop); the comparator is the closure"""
    sl, clos = as_slice(args[0]), args[1]
    size = len(sl)
    if size == 0:
        return Enum("Err", 1, [usize(0)])
    base = 0

    def cmp_at(i):
        r = it.call_closure(clos, [Ref(sl.vec.elems[sl.lo + i])])
        if not isinstance(r, Enum) or r.variant not in ("Less", "Equal", "Greater"):
            raise Unsupported("binary_search_by: comparator did not return an Ordering")
        return r.variant
    while size > 1:
        half = size // 2
        mid = base + half
        if cmp_at(mid) != "Greater":
            base = mid
        size -= half
    c = cmp_at(base)
    if c == "Equal":
        return Enum("Ok", 0, [usize(base)])
    return Enum("Err", 1, [usize(base + (1 if c == "Less" else 0))])


def m_binary_search(it, callee, args, m):
    """<[int]>::binary_search(&x): core's halving loop with the elements' own order (decided by forking)"""
    sl, x = as_slice(args[0]), deref(args[1])
    size = len(sl)
    if size == 0:
        return Enum("Err", 1, [usize(0)])
    base = 0

    def cmp_at(i):
        e = sl.vec.elems[sl.lo + i].v
        if key_lt(it, e, x):
            return "Less"
        if key_lt(it, x, e):
            return "Greater"
        return "Equal"
    while size > 1:
        half = size // 2
        mid = base + half
        if cmp_at(mid) != "Greater":
            base = mid
        size -= half
    c = cmp_at(base)
    if c == "Equal":
        return Enum("Ok", 0, [usize(base)])
    return Enum("Err", 1, [usize(base + (1 if c == "Less" else 0))])


def m_len_utf16(it, callee, args, m):
    c = deref(args[0])
    return Int(z3.If(z3.UGE(c.t, 0x10000), z3.BitVecVal(2, 64), z3.BitVecVal(1, 64)))


def m_len_utf8(it, callee, args, m):
    t = z3.ZeroExt(32, deref(args[0]).t)
    return Int(z3.If(z3.ULT(t, 0x80), z3.BitVecVal(1, 64),
                     z3.If(z3.ULT(t, 0x800), z3.BitVecVal(2, 64), z3.If(z3.ULT(t, 0x10000), z3.BitVecVal(3, 64), z3.BitVecVal(4, 64)))))


def m_opt_zip(it, callee, args, m):
    a, b = args
    if a.variant == "Some" and b.variant == "Some":
        return some(Tup([a.fields[0], b.fields[0]]))
    return NONE()


def m_range_len(it, callee, args, m):
    """ExactSizeIterator::len of a Range<usize>: end - start, saturating at 0"""
    r = deref(args[0])
    lo, hi = r.fields[0], r.fields[1]
    return Int(z3.If(z3.ULE(lo.t, hi.t), hi.t - lo.t, z3.BitVecVal(0, 64)))


def m_opt_is_none_or(it, callee, args, m):
    o = args[0]
    if o.variant != "Some":
        return z3.BoolVal(True)
    return it.call_closure(args[1], [o.fields[0]])


def m_opt_as_ref(it, callee, args, m):
    r = args[0]
    o = deref(r)
    if o.variant != "Some":
        return NONE()
    base = r
    while isinstance(base, Ref) and isinstance(base.get(), Ref):
        base = base.get()
    return some(Ref(base.cell, base.path + (("downcast", "Some"), ("field", 0))))


def m_opt_take(it, callee, args, m):
    r = args[0]
    base = r
    while isinstance(base, Ref) and isinstance(base.get(), Ref):
        base = base.get()
    old = base.get()
    base.set(NONE())
    return old


# ---- integers
def m_int_max(it, callee, args, m):
    a, b = args
    c = z3.UGE(a.t, b.t) if not a.signed else a.t >= b.t
    return Int(z3.If(c, a.t, b.t), a.bits, a.signed)


def m_int_min(it, callee, args, m):
    a, b = args
    c = z3.ULE(a.t, b.t) if not a.signed else a.t <= b.t
    return Int(z3.If(c, a.t, b.t), a.bits, a.signed)


def m_saturating_sub(it, callee, args, m):
    a, b = args
    return Int(z3.If(z3.ULT(a.t, b.t), z3.BitVecVal(0, a.bits), a.t - b.t), a.bits, a.signed)


def m_wrapping_sub(it, callee, args, m):
    return Int(args[0].t - args[1].t, args[0].bits, args[0].signed)


def m_wrapping_add(it, callee, args, m):
    return Int(args[0].t + args[1].t, args[0].bits, args[0].signed)


def m_checked_sub(it, callee, args, m):
    a, b = args
    if it.ctx.branch(z3.ULT(a.t, b.t)):
        return NONE()
    return some(Int(a.t - b.t, a.bits, a.signed))


def m_add_checked(it, callee, args, m):
    """<usize as Add>::add and its reference variants: overflow panics (dev profile)"""
    a, b = deref(args[0]), deref(args[1])
    r = a.t + b.t
    no_ovf = z3.UGE(r, a.t)
    ok, model = it.ctx.valid(no_ovf)
    if not ok:
        it.panics.append(("attempt to add with overflow", "Add::add", model))
        if not it.ctx.branch(no_ovf):
            raise PathEnd()
    return Int(r, a.bits, a.signed)


def m_sub_checked(it, callee, args, m):
    a, b = deref(args[0]), deref(args[1])
    no_ovf = z3.UGE(a.t, b.t)
    ok, model = it.ctx.valid(no_ovf)
    if not ok:
        it.panics.append(("attempt to subtract with overflow", "Sub::sub", model))
        if not it.ctx.branch(no_ovf):
            raise PathEnd()
    return Int(a.t - b.t, a.bits, a.signed)


def val_eq(it, a, b):
    """structural equality of two values, decided by forking where symbolic (what a derived PartialEq computes)"""
    a, b = deref(a), deref(b)
    if isinstance(a, Int) and isinstance(b, Int):
        return it.ctx.branch(a.t == b.t)
    if z3.is_bool(a) and z3.is_bool(b):
        return it.ctx.branch(a == b)
    if isinstance(a, Enum) and isinstance(b, Enum):
        if a.idx != b.idx:
            return False
        return all(val_eq(it, x, y) for x, y in zip(a.fields, b.fields))
    if isinstance(a, Tup) and isinstance(b, Tup):
        return all(val_eq(it, x, y) for x, y in zip(a.items, b.items))
    if isinstance(a, Adt) and isinstance(b, Adt):
        return all(val_eq(it, x, y) for x, y in zip(a.fields, b.fields))
    if isinstance(a, str) and isinstance(b, str):
        return a == b
    if isinstance(a, (VecObj, SliceRef)) and isinstance(b, (VecObj, SliceRef)):
        sa, sb = as_slice(a), as_slice(b)
        if len(sa) != len(sb):
            return False
        return all(val_eq(it, sa.vec.elems[sa.lo + i].v, sb.vec.elems[sb.lo + i].v) for i in range(len(sa)))
    if isinstance(a, StringObj) and isinstance(b, StringObj):
        return len(a.chars) == len(b.chars) and all(val_eq(it, x, y) for x, y in zip(a.chars, b.chars))
    raise Unsupported(f"equality of {type(a)} and {type(b)}")


def sym_eq(a, b):
    """structural equality as a z3 term where possible (no forking); None if shapes differ"""
    a, b = deref(a), deref(b)
    if isinstance(a, Int) and isinstance(b, Int):
        return a.t == b.t
    if z3.is_bool(a) and z3.is_bool(b):
        return a == b
    if isinstance(a, Enum) and isinstance(b, Enum):
        if a.idx != b.idx:
            return z3.BoolVal(False)
        parts = [sym_eq(x, y) for x, y in zip(a.fields, b.fields)]
        return z3.And(*parts) if parts else z3.BoolVal(True)
    if isinstance(a, Tup) and isinstance(b, Tup):
        return z3.And(*[sym_eq(x, y) for x, y in zip(a.items, b.items)]) if a.items else z3.BoolVal(True)
    if isinstance(a, Adt) and isinstance(b, Adt):
        return z3.And(*[sym_eq(x, y) for x, y in zip(a.fields, b.fields)]) if a.fields else z3.BoolVal(True)
    raise Unsupported(f"equality of {type(a)} and {type(b)}")


def m_partial_eq(it, callee, args, m):
    return sym_eq(args[0], args[1])


def m_partial_ne(it, callee, args, m):
    return z3.Not(sym_eq(args[0], args[1]))


def m_slice_contains(it, callee, args, m):
    sl = as_slice(args[0])
    for i in range(len(sl)):
        if val_eq(it, sl.vec.elems[sl.lo + i].v, args[1]):
            return z3.BoolVal(True)
    return z3.BoolVal(False)


# ---- char / String / integer parsing
def char_in(c, lo, hi):
    return z3.And(z3.UGE(c.t, ord(lo)), z3.ULE(c.t, ord(hi)))


def m_is_ascii_hexdigit(it, callee, args, m):
    c = deref(args[0])
    return z3.Or(char_in(c, "0", "9"), char_in(c, "a", "f"), char_in(c, "A", "F"))


def m_is_ascii_digit(it, callee, args, m):
    return char_in(deref(args[0]), "0", "9")


def m_is_ascii_alphanumeric(it, callee, args, m):
    c = deref(args[0])
    return z3.Or(char_in(c, "0", "9"), char_in(c, "a", "z"), char_in(c, "A", "Z"))


def m_is_ascii_alphabetic(it, callee, args, m):
    c = deref(args[0])
    return z3.Or(char_in(c, "a", "z"), char_in(c, "A", "Z"))


def ascii_lower(c):
    t = c.t
    return z3.If(z3.And(z3.UGE(t, 65), z3.ULE(t, 90)), t + 32, t)


def ascii_upper(c):
    t = c.t
    return z3.If(z3.And(z3.UGE(t, 97), z3.ULE(t, 122)), t - 32, t)


def m_eq_ignore_ascii_case(it, callee, args, m):
    return ascii_lower(deref(args[0])) == ascii_lower(deref(args[1]))


def m_to_ascii_lowercase(it, callee, args, m):
    c = deref(args[0])
    return Int(ascii_lower(c), 32, False)


def m_to_ascii_uppercase(it, callee, args, m):
    c = deref(args[0])
    t = c.t
    return Int(z3.If(z3.And(z3.UGE(t, 97), z3.ULE(t, 122)), t - 32, t), 32, False)


WHITE_SPACE = [(9, 13), (32, 32), (0x85, 0x85), (0xA0, 0xA0), (0x1680, 0x1680), (0x2000, 0x200A), (0x2028, 0x2029),
               (0x202F, 0x202F), (0x205F, 0x205F), (0x3000, 0x3000)]


def m_is_whitespace(it, callee, args, m):
    """char::is_whitespace: the Unicode White_Space set (25 code points, stable since Unicode 6)"""
    c = deref(args[0])
    return z3.Or(*[z3.And(z3.UGE(c.t, lo), z3.ULE(c.t, hi)) for lo, hi in WHITE_SPACE])


def m_slice_get_range(it, callee, args, m):
    sl = as_slice(args[0])
    r = args[1]
    lo, hi = r.fields[0], r.fields[1]
    n = len(sl)
    ok = z3.And(z3.ULE(lo.t, hi.t), z3.ULE(hi.t, z3.BitVecVal(n, 64)))
    if not it.ctx.branch(ok):
        return NONE()
    lo_c = it.ctx.choose(lo.t, list(range(n + 1)))
    hi_c = it.ctx.choose(hi.t, list(range(lo_c, n + 1)))
    return some(SliceRef(sl.vec, sl.lo + lo_c, sl.lo + hi_c))


def m_is_ascii_uppercase(it, callee, args, m):
    return char_in(deref(args[0]), "A", "Z")


def m_is_ascii_lowercase(it, callee, args, m):
    return char_in(deref(args[0]), "a", "z")


_fresh = [0]


def fresh_bool(tag):
    _fresh[0] += 1
    return z3.Bool(f"{tag}!{_fresh[0]}")


def m_is_alphanumeric(it, callee, args, m):
    """char::is_alphanumeric: exact on ASCII; for other chars the Unicode tables are not modelled - any answer
    is possible (a fresh Boolean), an over-approximation"""
    c = deref(args[0])
    ascii_ = z3.ULE(c.t, 0x7F)
    exact = z3.Or(char_in(c, "0", "9"), char_in(c, "a", "z"), char_in(c, "A", "Z"))
    return z3.If(ascii_, exact, fresh_bool("is_alphanumeric"))


def latin1_exact(t):
    """code points on which the case models below are exact: ASCII, and the Latin-1 letters except ss-sharp / y-diaeresis / the
    multiplication and division signs (their case mappings leave Latin-1 or are not 1:1)"""
    return z3.Or(z3.ULE(t, 0x7F), z3.And(z3.UGE(t, 0xC0), z3.ULE(t, 0xFE), t != 0xD7, t != 0xDF, t != 0xF7))


def latin1_is_upper(t):
    return z3.Or(z3.And(z3.UGE(t, 65), z3.ULE(t, 90)), z3.And(z3.UGE(t, 0xC0), z3.ULE(t, 0xDE), t != 0xD7))


def latin1_is_lower(t):
    return z3.Or(z3.And(z3.UGE(t, 97), z3.ULE(t, 122)), z3.And(z3.UGE(t, 0xE0), z3.ULE(t, 0xFE), t != 0xF7))


def m_is_lowercase(it, callee, args, m):
    c = deref(args[0])
    return z3.If(latin1_exact(c.t), latin1_is_lower(c.t), fresh_bool("is_lowercase"))


def m_is_uppercase(it, callee, args, m):
    c = deref(args[0])
    return z3.If(latin1_exact(c.t), latin1_is_upper(c.t), fresh_bool("is_uppercase"))


def m_to_lowercase(it, callee, args, m):
    """char::to_lowercase / to_uppercase: exact on ASCII and on the Latin-1 letters with 1:1 mappings inside Latin-1 (one char,
    +-0x20); the rest of the Unicode special-casing tables is not modelled, so a path on which the char may lie outside that
    set is inconclusive"""
    c = deref(args[0])
    dom = latin1_exact(c.t)
    if not it.ctx.valid(dom)[0] and not it.ctx.branch(dom):
        raise Unsupported("char::to_lowercase/to_uppercase outside ASCII / Latin-1 letters (Unicode case tables are not modelled)")
    if callee.endswith("to_lowercase"):
        r = z3.If(latin1_is_upper(c.t), c.t + 32, c.t)
    else:
        r = z3.If(latin1_is_lower(c.t), c.t - 32, c.t)
    return SeqIter([Int(r, 32, False)])


def m_cow_slice(it, callee, args, m):
    return as_slice(args[0])


def m_cow_deref(it, callee, args, m):
    """<Cow<'_, T> as Deref>::deref for a sized T: Borrowed(&T) -> that reference, Owned(T) -> a reference to the payload"""
    r = args[0]
    cow = deref(r)
    if cow.variant == "Borrowed":
        return cow.fields[0]
    if isinstance(r, Ref):
        return Ref(r.cell, r.path + (("field", 0),))
    return Ref(Cell(cow.fields[0]))


def m_to_vec(it, callee, args, m):
    sl = as_slice(args[0])
    return VecObj([copy_val(sl.vec.elems[sl.lo + i].v) for i in range(len(sl))])


def m_is_alphabetic(it, callee, args, m):
    c = deref(args[0])
    return z3.If(z3.ULE(c.t, 0x7F), z3.Or(char_in(c, "a", "z"), char_in(c, "A", "Z")), fresh_bool("is_alphabetic"))


def m_is_numeric(it, callee, args, m):
    c = deref(args[0])
    return z3.If(z3.ULE(c.t, 0x7F), char_in(c, "0", "9"), fresh_bool("is_numeric"))


class StringObj:
    """String / &str: a list of chars (concrete length, symbolic contents)"""
    heap = True

    def __init__(self, chars):
        self.chars = list(chars)


def m_collect_string(it, callee, args, m):
    return StringObj([copy_val(deref(x)) for x in drain(to_iter(args[0]), it)])


def m_string_deref(it, callee, args, m):
    return deref(args[0])


def m_string_len(it, callee, args, m):
    """String::len is the UTF-8 byte length"""
    s = deref(args[0])
    total = z3.BitVecVal(0, 64)
    for c in s.chars:
        t = z3.ZeroExt(32, c.t)
        total = total + z3.If(z3.ULT(t, 0x80), z3.BitVecVal(1, 64),
                              z3.If(z3.ULT(t, 0x800), z3.BitVecVal(2, 64), z3.If(z3.ULT(t, 0x10000), z3.BitVecVal(3, 64), z3.BitVecVal(4, 64))))
    return Int(total)


def m_from_str_radix_u64(it, callee, args, m):
    """u64::from_str_radix(s, 16): Err on empty input, on a non-hex-digit character and on overflow (an
    optional leading '+' is not modelled: inputs containing '+' are rejected as unsupported)"""
    s = deref(args[0])
    radix = args[1]
    if not z3.is_bv_value(z3.simplify(radix.t)) or z3.simplify(radix.t).as_long() != 16:
        raise Unsupported("from_str_radix with radix != 16")
    if not s.chars:
        return Enum("Err", 1, ["ParseIntError"])
    val = z3.BitVecVal(0, 64)
    ok = z3.BoolVal(True)
    for c in s.chars:
        if it.ctx.ex.check(z3.And(*it.ctx.pc), c.t == ord("+")) == z3.sat and len(s.chars) > 1 and c is s.chars[0]:
            raise Unsupported("from_str_radix input may start with '+'")
        isd = z3.Or(char_in(c, "0", "9"), char_in(c, "a", "f"), char_in(c, "A", "F"))
        d = z3.If(char_in(c, "0", "9"), c.t - ord("0"), z3.If(char_in(c, "a", "f"), c.t - ord("a") + 10, c.t - ord("A") + 10))
        d64 = z3.ZeroExt(32, d)
        no_ovf = z3.And(z3.ULE(val, z3.BitVecVal((1 << 60) - 1, 64)))  # val * 16 fits
        nxt = val * 16 + d64
        ok = z3.And(ok, isd, no_ovf)
        val = nxt
    if it.ctx.branch(ok):
        return Enum("Ok", 0, [Int(val)])
    return Enum("Err", 1, ["ParseIntError"])


def m_string_pop(it, callee, args, m):
    s_ = deref(args[0])
    if s_.chars:
        return some(s_.chars.pop())
    return NONE()


def m_string_is_empty(it, callee, args, m):
    return z3.BoolVal(len(deref(args[0]).chars) == 0)


def m_bool_then_some(it, callee, args, m):
    return some(args[1]) if it.ctx.branch(args[0]) else NONE()


def m_find_map(it, callee, args, m):
    inner, clos = to_iter(args[0]), args[1]
    while True:
        x = inner.next(it)
        if x is None:
            return NONE()
        r = it.call_closure(clos, [x])
        if r.variant == "Some":
            return r


def m_opt_unwrap_or_default(it, callee, args, m):
    o = args[0]
    if o.variant == "Some":
        return o.fields[0]
    if re.search(r"Option::<(usize|u64|u32|u8)>", callee):
        return usize(0)
    if re.search(r"Option::<(std::vec::)?Vec<", callee):
        return VecObj([])
    raise Unsupported("unwrap_or_default of a non-integer")


def m_parse_f64(it, callee, args, m):
    """str::parse::<f64>: Ok(opaque value) iff the text matches Rust's float grammar
       [+-]? ( digits [. digits?] | . digits ) ( [eE] [+-]? digits )?   |   [+-]? (inf | infinity | nan)
    decided character by character by forking; the numeric value itself is not modelled (opaque)."""
    s_ = deref(args[0])
    cs = s_.chars

    def is_(c, ch):
        return it.ctx.branch(c.t == ord(ch))

    def is_any(c, chars):
        return it.ctx.branch(z3.Or(*[c.t == ord(x) for x in chars]))

    def digit(c):
        return it.ctx.branch(char_in(c, "0", "9"))

    def err():
        return Enum("Err", 1, ["ParseFloatError"])

    i, n = 0, len(cs)
    if n == 0:
        return err()
    if is_any(cs[i], "+-"):
        i += 1
        if i == n:
            return err()
    # inf / infinity / nan (ASCII case-insensitive)
    rest = cs[i:]
    for word in ("infinity", "inf", "nan"):
        if len(rest) == len(word) and all(it.ctx.branch(z3.Or(c.t == ord(w), c.t == ord(w.upper()))) for c, w in zip(rest, word)):
            return Enum("Ok", 0, [("float-of", "special")])
    nd = 0
    while i < n and digit(cs[i]):
        i += 1
        nd += 1
    if i < n and is_(cs[i], "."):
        i += 1
        while i < n and digit(cs[i]):
            i += 1
            nd += 1
    if nd == 0:
        return err()
    if i < n and is_any(cs[i], "eE"):
        i += 1
        if i < n and is_any(cs[i], "+-"):
            i += 1
        ne = 0
        while i < n and digit(cs[i]):
            i += 1
            ne += 1
        if ne == 0:
            return err()
    if i != n:
        return err()
    return Enum("Ok", 0, [("float-of", "parsed")])


def m_result_unwrap(it, callee, args, m):
    r = args[0]
    if r.variant == "Ok":
        return r.fields[0]
    it.panics.append(("called `Result::unwrap()` on an `Err` value", "Result::unwrap", it.ctx.ex.solver.model() if it.ctx.ex.check() == z3.sat else None))
    raise PathEnd()


def m_result_ok(it, callee, args, m):
    r = args[0]
    return some(r.fields[0]) if r.variant == "Ok" else NONE()


# ---- maps and caches
class MapObj:
    """BTreeMap<K, V> with concrete key order: a list of [key, value-cell] entries"""
    heap = True

    def __init__(self, entries):
        self.entries = [[k, v if isinstance(v, Cell) else Cell(v)] for k, v in entries]


def str_key(x):
    """a concrete string key (BTreeMap<String, _> keys must be concrete on a path)"""
    x = deref(x)
    if isinstance(x, str):
        return x
    if isinstance(x, StringObj):
        out = []
        for c in x.chars:
            t = z3.simplify(c.t)
            if not z3.is_bv_value(t):
                raise Unsupported("symbolic map key")
            out.append(chr(t.as_long()))
        return "".join(out)
    raise Unsupported(f"map key of {type(x)}")


def m_btree_get(it, callee, args, m):
    mp, key = deref(args[0]), str_key(args[1])
    for k, c in mp.entries:
        if str_key(k) == key:
            return some(Ref(c))
    return NONE()


def m_btree_contains_key(it, callee, args, m):
    mp, key = deref(args[0]), str_key(args[1])
    return z3.BoolVal(any(str_key(k) == key for k, c in mp.entries))


def m_btree_insert(it, callee, args, m):
    mp, key = deref(args[0]), args[1]
    ks = str_key(key)
    for ent in mp.entries:
        if str_key(ent[0]) == ks:
            old = ent[1].v
            ent[1].v = args[2]
            return some(old)
    mp.entries.append([key, Cell(args[2])])
    mp.entries.sort(key=lambda e: str_key(e[0]))
    return NONE()


def m_btree_remove(it, callee, args, m):
    mp, key = deref(args[0]), str_key(args[1])
    for i, ent in enumerate(mp.entries):
        if str_key(ent[0]) == key:
            mp.entries.pop(i)
            return some(ent[1].v)
    return NONE()


def m_btree_iter(it, callee, args, m):
    mp = deref(args[0])
    return SeqIter([Tup([Ref(Cell(k)), Ref(c)]) for k, c in mp.entries])


def m_btree_values_mut(it, callee, args, m):
    mp = deref(args[0])
    return SeqIter([Ref(c) for k, c in mp.entries])


def m_btree_new(it, callee, args, m):
    return MapObj([])


def m_opt_flatten(it, callee, args, m):
    o = args[0]
    return o.fields[0] if o.variant == "Some" else NONE()


def m_string_to_string(it, callee, args, m):
    x = deref(args[0])
    if isinstance(x, StringObj):
        return StringObj([copy_val(c) for c in x.chars])
    return x


def m_string_as_bytes(it, callee, args, m):
    x = deref(args[0])
    return VecObj([Int(z3.Extract(7, 0, c.t), 8, False) for c in x.chars])  # ASCII keys only


class RecorderHasher:
    """a std::hash::Hasher that records what is written to it; `finish` is an injective function of the record"""
    heap = True
    table = {}

    def __init__(self):
        self.rec = []

    def finish(self):
        key = tuple(self.rec)
        if key not in RecorderHasher.table:
            RecorderHasher.table[key] = len(RecorderHasher.table) + 1
        return RecorderHasher.table[key]


def concrete_byte(x):
    t = z3.simplify(deref(x).t)
    if not z3.is_bv_value(t):
        raise Unsupported("symbolic byte written to a hasher")
    return t.as_long()


def m_hasher_write(it, callee, args, m):
    h = deref(args[0])
    sl = as_slice(args[1])
    h.rec.append(tuple(concrete_byte(sl.vec.elems[sl.lo + i].v) for i in range(len(sl))))
    return ()


def m_hasher_write_u8(it, callee, args, m):
    deref(args[0]).rec.append(concrete_byte(args[1]))
    return ()


def m_btree_iter_mut(it, callee, args, m):
    mp = deref(args[0])
    return SeqIter([Tup([Ref(Cell(k)), Ref(c)]) for k, c in mp.entries])


class LruObj:
    """lru::LruCache<K, V>: an association list, most recent last. Eviction is not modelled (a cache that
    forgets entries only turns hits into misses)."""
    heap = True

    def __init__(self):
        self.entries = []  # [key, Cell(value)]


def m_lru_get(it, callee, args, m):
    c = deref(args[0])
    key = deref(args[1])
    for k, cell in c.entries:
        if val_eq(it, k, key):
            return some(Ref(cell))
    return NONE()


def m_lru_put(it, callee, args, m):
    c = deref(args[0])
    key, val = args[1], args[2]
    for ent in c.entries:
        if val_eq(it, ent[0], key):
            old = ent[1].v
            ent[1] = Cell(val)
            return some(old)
    c.entries.append([key, Cell(val)])
    return NONE()


def m_into_smallvec(it, callee, args, m):
    sl = as_slice(args[0])
    return VecObj([copy_val(sl.vec.elems[sl.lo + i].v) for i in range(len(sl))])


def m_vec_extend_vec(it, callee, args, m):
    v = deref(args[0])
    src = args[1]
    if isinstance(src, VecObj):
        v.elems.extend(src.elems)
        return ()
    for x in drain(to_iter(src), it):
        v.elems.append(Cell(x))
    return ()


def m_vec_append(it, callee, args, m):
    v, o = deref(args[0]), deref(args[1])
    v.elems.extend(o.elems)
    o.elems = []
    return ()


def m_localkey_with(it, callee, args, m):
    """thread_local!{ static NAME: T = Owner::uncached_<name>() }: harper's thread-locals only memoise the value of an
    initialiser function; the model evaluates that function (found by harper's naming convention) and applies the closure"""
    key = args[0]
    name = getattr(key, "tl_name", None) or (deref(key).tl_name if hasattr(deref(key), "tl_name") else None)
    if name is None:
        raise Unsupported("LocalKey::with on an unknown thread-local")
    init = [n for n in it.raw if n.endswith("::uncached_" + name.lower()) and "{closure" not in n]
    if len(init) != 1:
        raise Unsupported(f"initialiser of thread-local {name} not found: {init}")
    val = it.call_fn(init[0], [])
    return it.call_closure(args[1], [Ref(Cell(val))])


def m_localkey_borrow(it, callee, args, m):
    """LocalKey<RefCell<T>>::with_borrow / with_borrow_mut for a *stateful* thread-local (`thread_local!{ static NAME:
    RefCell<T> = init }`): the value is created once per executed path by the item's own initialiser
    (`NAME::__rust_std_internal_init_fn`, real MIR) and then persists across calls - one thread, one path"""
    key = args[0]
    name = getattr(key, "tl_name", None) or (deref(key).tl_name if hasattr(deref(key), "tl_name") else None)
    if name is None:
        raise Unsupported("LocalKey::with_borrow on an unknown thread-local")
    store = it.__dict__.setdefault("tls_store", {})
    if name not in store:
        init = [n for n in it.raw if n.endswith(name + "::__rust_std_internal_init_fn")] or \
               [n for n in it.raw if n.endswith(name + "::__RUST_STD_INTERNAL_INIT")]  # `= const { .. }` form
        if len(init) != 1:
            raise Unsupported(f"initialiser of thread-local {name} not found: {init}")
        store[name] = Cell(it.call_fn(init[0], []))
    cell = store[name]
    v = cell.v
    # RefCell::new(x) is modelled as x itself or as a one-field wrapper: hand the closure a reference to the inner value
    if isinstance(v, Adt) and v.name.split("<")[0].split("::")[-1] == "RefCell":
        return it.call_closure(args[1], [Ref(cell, (("field", 0),))])
    return it.call_closure(args[1], [Ref(cell)])


def m_rc_new(it, callee, args, m):
    return BoxRef(Cell(args[0]))


def m_box_new(it, callee, args, m):
    return BoxRef(Cell(args[0]))


def m_box_new_uninit(it, callee, args, m):
    """Box::<[T; N]>::new_uninit() as produced by `vec![a, b, ..]`: MaybeUninit { uninit: (), value: ManuallyDrop(MaybeDangling(T)) }"""
    return BoxRef(Cell(Adt("MaybeUninit", [(), Adt("ManuallyDrop", [Adt("MaybeDangling", [None])])])))


def m_box_into_vec(it, callee, args, m):
    b = deref(args[0])
    arr = b.fields[1].fields[0].fields[0]
    if not isinstance(arr, VecObj):
        raise Unsupported("vec! box was not initialised with an array")
    return arr


def m_str_chars(it, callee, args, m):
    s = deref(args[0])
    return SeqIter([copy_val(c) for c in s.chars])


def m_collect_smallvec(it, callee, args, m):
    return VecObj([copy_val(deref(x)) if isinstance(x, Ref) else x for x in drain(to_iter(args[0]), it)])


def m_vec_contains(it, callee, args, m):
    v = deref(args[0])
    for c in v.elems:
        if val_eq(it, c.v, args[1]):
            return z3.BoolVal(True)
    return z3.BoolVal(False)


def m_fn_call(it, callee, args, m):
    """<F as Fn<Args>>::call(&f, (a, b))"""
    f = deref(args[0])
    tup = args[1]
    return it.call_closure(f, list(tup.items) if isinstance(tup, Tup) else [tup])


def m_mem_swap(it, callee, args, m):
    a, b = args[0], args[1]
    while isinstance(a, Ref) and isinstance(a.get(), Ref):
        a = a.get()
    while isinstance(b, Ref) and isinstance(b.get(), Ref):
        b = b.get()
    va, vb = a.get(), b.get()
    a.set(vb)
    b.set(va)
    return ()


def m_identity(it, callee, args, m):
    return args[0]


def deep_clone(v):
    if isinstance(v, VecObj):
        return VecObj([deep_clone(c.v) for c in v.elems])
    if isinstance(v, DequeObj):
        d = DequeObj()
        d.items = [deep_clone(x) for x in v.items]
        return d
    if isinstance(v, Tup):
        return Tup([deep_clone(x) for x in v.items])
    if isinstance(v, Adt):
        a = Adt(v.name, [deep_clone(x) for x in v.fields])
        if hasattr(v, "origin"):
            a.origin = v.origin
        return a
    if isinstance(v, Enum):
        return Enum(v.variant, v.idx, [deep_clone(x) for x in v.fields])
    if isinstance(v, MapObj):
        return MapObj([(deep_clone(k), deep_clone(c.v)) for k, c in v.entries])
    if isinstance(v, StringObj):
        return StringObj(list(v.chars))
    if isinstance(v, HashObj):
        h = HashObj()
        h.entries = [[deep_clone(k), Cell(deep_clone(c.v))] for k, c in v.entries]
        return h
    return v


def m_clone(it, callee, args, m):
    return deep_clone(deref(args[0]))


def m_extend_from_slice(it, callee, args, m):
    v = deref(args[0])
    sl = as_slice(args[1])
    for i in range(len(sl)):
        v.elems.append(Cell(deep_clone(sl.vec.elems[sl.lo + i].v)))
    return ()


class PeekIter:
    def __init__(self, inner):
        self.inner, self.buf, self.has = inner, None, False

    def peek(self, it):
        if not self.has:
            self.buf, self.has = self.inner.next(it), True
        return self.buf

    def next(self, it=None):
        if self.has:
            self.has = False
            return self.buf
        return self.inner.next(it)


def m_peekable(it, callee, args, m):
    return PeekIter(to_iter(args[0]))


def m_peek(it, callee, args, m):
    p = deref(args[0])
    x = p.peek(it)
    return NONE() if x is None else some(Ref(Cell(x)))


def m_rc_deref(it, callee, args, m):
    """Rc<T>/Arc<T> are modelled as a reference to the shared value"""
    x = args[0]
    while isinstance(x, Ref) and isinstance(x.get(), Ref):
        x = x.get()
    return x if isinstance(x, Ref) else Ref(Cell(x))


def key_lt(it, a, b):
    """strict lexicographic `<` on keys (Int or Tup of Int), decided by forking"""
    if isinstance(a, Int):
        return it.ctx.branch(z3.ULT(a.t, b.t) if not a.signed else a.t < b.t)
    if isinstance(a, Tup):
        for x, y in zip(a.items, b.items):
            if key_lt(it, x, y):
                return True
            if key_lt(it, y, x):
                return False
        return False
    if isinstance(a, Adt) and a.name.split("<")[0].endswith("Reverse"):
        return key_lt(it, b.fields[0], a.fields[0])
    da, db = deref(a), deref(b)
    if isinstance(da, (VecObj, SliceRef)) and isinstance(db, (VecObj, SliceRef)):
        # slices / strings compare lexicographically
        sa, sb = as_slice(da), as_slice(db)
        for i in range(min(len(sa), len(sb))):
            x, y = sa.vec.elems[sa.lo + i].v, sb.vec.elems[sb.lo + i].v
            if key_lt(it, x, y):
                return True
            if key_lt(it, y, x):
                return False
        return len(sa) < len(sb)
    raise Unsupported(f"key type {type(a)}")


def m_sort_by_key(it, callee, args, m):
    """Contract assumed for <[T]>::sort_by_key / sort_unstable_by_key / sort_by_cached_key: the result
    is sorted by the key function (a *stable* order is produced, which is one of the orders the
    unstable variants may produce); the key closure (real MIR) is called on the elements."""
    sl = as_slice(args[0])
    clos = args[1]
    n = len(sl)
    vals = [sl.vec.elems[sl.lo + i].v for i in range(n)]
    keys = [it.call_closure(clos, [Ref(Cell(v))]) for v in vals]
    order = list(range(n))
    for i in range(1, n):
        j = i
        while j > 0 and key_lt(it, keys[order[j]], keys[order[j - 1]]):
            order[j - 1], order[j] = order[j], order[j - 1]
            j -= 1
    for i, o in enumerate(order):
        sl.vec.elems[sl.lo + i].v = vals[o]
    return ()


def m_iter_sorted_by_key(it, callee, args, m):
    """Itertools::sorted_by_key / sorted_unstable_by_key: collect, sort by the real key closure (stable order - one of the
    orders the unstable variant may produce), iterate by value"""
    vals = drain(to_iter(args[0]), it)
    vec = VecObj(vals)
    m_sort_by_key(it, callee, [SliceRef(vec, 0, len(vals)), args[1]], m)
    return SeqIter([c.v for c in vec.elems])


def m_vec_retain(it, callee, args, m):
    """Contract assumed for Vec::retain: the predicate is called exactly once per element, in
    order, and exactly the elements for which it returned true are kept, in order."""
    v = deref(args[0])
    clos = args[1]
    cell = Cell(clos)
    name = it.closure_fn(clos)
    fn = it.get_fn(name)
    selfarg = Ref(cell) if fn.params[0][1].startswith("&") else clos
    kept = []
    for c in list(v.elems):
        r = it.call_fn(name, [selfarg, Ref(c)])
        if it.ctx.branch(r):
            kept.append(c)
    v.elems = kept
    return ()


def m_vec_dedup_by_key(it, callee, args, m):
    """Vec::dedup_by_key(key): consecutive elements with equal keys are collapsed, the first of each run is kept"""
    v = deref(args[0])
    clos = args[1]
    kept, last_key = [], None
    for c in list(v.elems):
        k = it.call_closure(clos, [Ref(c)])
        if kept and val_eq(it, k, last_key):
            continue
        kept.append(c)
        last_key = k
    v.elems = kept
    return ()


def m_str_to_lowercase(it, callee, args, m):
    """str::to_lowercase: exact on ASCII and the Latin-1 letters with 1:1 case mappings (see latin1_exact)"""
    src = deref(args[0])
    out = []
    for c in src.chars:
        dom = latin1_exact(c.t)
        if not it.ctx.valid(dom)[0] and not it.ctx.branch(dom):
            raise Unsupported("str::to_lowercase outside ASCII / Latin-1 letters")
        out.append(Int(z3.If(latin1_is_upper(c.t), c.t + 32, c.t), 32, False))
    return StringObj(out)


def m_vec_dedup_by(it, callee, args, m):
    """Vec::dedup_by(same_bucket): for every element after the first, in order, same_bucket(&mut elem, &mut last_kept) is
    called once; elements for which it returns true are removed (std's documented contract)"""
    v = deref(args[0])
    clos = args[1]
    cell = Cell(clos)
    name = it.closure_fn(clos)
    fn = it.get_fn(name)
    selfarg = Ref(cell) if fn.params[0][1].startswith("&") else clos
    kept = []
    for c in list(v.elems):
        if kept:
            r = it.call_fn(name, [selfarg, Ref(c), Ref(kept[-1])])
            if it.ctx.branch(r):
                continue
        kept.append(c)
    v.elems = kept
    return ()


def m_vec_remove(it, callee, args, m):
    v = deref(args[0])
    i = it.concretise_index(args[1], len(v.elems))
    return v.elems.pop(i).v


def m_vec_truncate(it, callee, args, m):
    v = deref(args[0])
    n = len(v.elems)
    k = args[1]
    if it.ctx.branch(z3.UGE(k.t, z3.BitVecVal(n, 64))):
        return ()
    kc = it.ctx.choose(k.t, list(range(n)))
    v.elems = v.elems[:kc]
    return ()


def m_vec_split_off(it, callee, args, m):
    """Vec::split_off(at): panics beyond len; the index is concretised by forking"""
    v = deref(args[0])
    n = len(v.elems)
    inb = z3.ULE(args[1].t, z3.BitVecVal(n, 64))
    ok, model = it.ctx.valid(inb)
    if not ok:
        it.panics.append(("split_off index out of bounds", "Vec::split_off", model))
        if not it.ctx.branch(inb):
            raise PathEnd()
    k = it.ctx.choose(args[1].t, list(range(n + 1)))
    tail = VecObj([c.v for c in v.elems[k:]])
    v.elems = v.elems[:k]
    return tail


def m_vec_insert(it, callee, args, m):
    """Vec::insert(index, value): index concretised by forking (panics beyond len)"""
    v = deref(args[0])
    n = len(v.elems)
    inb = z3.ULE(args[1].t, z3.BitVecVal(n, 64))
    ok, model = it.ctx.valid(inb)
    if not ok:
        it.panics.append(("insertion index out of bounds", "Vec::insert", model))
        if not it.ctx.branch(inb):
            raise PathEnd()
    k = it.ctx.choose(args[1].t, list(range(n + 1)))
    v.elems.insert(k, Cell(args[2]))
    return ()


def m_vec_dedup(it, callee, args, m):
    """Vec::dedup: consecutive equal elements are collapsed"""
    v = deref(args[0])
    kept = []
    for c in list(v.elems):
        if kept and val_eq(it, kept[-1].v, c.v):
            continue
        kept.append(c)
    v.elems = kept
    return ()


def m_vec_extend_by_value(it, callee, args, m):
    v = deref(args[0])
    src = args[1]
    items = [c.v for c in src.elems] if isinstance(src, VecObj) else drain(to_iter(src), it)
    v.elems.extend(Cell(x) for x in items)
    return ()


def m_vec_resize(it, callee, args, m):
    """Vec::resize(new_len, value): new_len must be concrete on the path (<= 64; forks otherwise)"""
    v = deref(args[0])
    k = it.ctx.choose(args[1].t, list(range(65)))
    if k <= len(v.elems):
        v.elems = v.elems[:k]
    else:
        v.elems = v.elems + [Cell(copy_val(args[2])) for _ in range(k - len(v.elems))]
    return ()


IT = r"(?:<.* as (?:Iterator|DoubleEndedIterator|ExactSizeIterator|IntoIterator)>|Iterator|DoubleEndedIterator)"
MODELS = [
    (IT + r"::rposition::<", m_rposition),
    (r"^<(u8|u16|u32|u64|usize) as From<bool>>::from$", lambda it, c, a, m: Int(z3.If(a[0], z3.BitVecVal(1, {"u8": 8, "u16": 16, "u32": 32}.get(m.group(1), 64)), z3.BitVecVal(0, {"u8": 8, "u16": 16, "u32": 32}.get(m.group(1), 64))), {"u8": 8, "u16": 16, "u32": 32}.get(m.group(1), 64), False)),
    (r"^core::num::<impl (u8|u16|u32|u64|usize)>::rotate_left$", lambda it, c, a, m: Int(z3.RotateLeft(a[0].t, z3.ZeroExt(a[0].bits - 32, a[1].t) if a[1].bits < a[0].bits else z3.Extract(a[0].bits - 1, 0, a[1].t)), a[0].bits, False)),
    (r"^core::num::<impl (u8|u16|u32|u64|usize)>::rotate_right$", lambda it, c, a, m: Int(z3.RotateRight(a[0].t, z3.ZeroExt(a[0].bits - 32, a[1].t) if a[1].bits < a[0].bits else z3.Extract(a[0].bits - 1, 0, a[1].t)), a[0].bits, False)),
    (r"^core::slice::<impl \[.*\]>::chunks(_exact)?$", m_slice_chunks),
    (r"^(std::|alloc::)?slice::<impl \[(std::string::)?String\]>::join::<&str>$", m_str_join),
    (r"^(core|std|alloc)::str::<impl str>::lines$", m_str_lines),
    (r"^<(std::option::)?Option<.*> as Default>::default$", lambda it, c, a, m: NONE()),
    (r"^<bool as Default>::default$", lambda it, c, a, m: z3.BoolVal(False)),
    (r"^<(u8|u16|u32|u64|usize) as Default>::default$", lambda it, c, a, m: Int(0, {"u8": 8, "u16": 16, "u32": 32}.get(m.group(1), 64), False)),
    (r"^Vec::<.*>::split_off$", m_vec_split_off),
    (r"^Result::<.*>::is_ok$", lambda it, c, a, m: z3.BoolVal(deref(a[0]).variant == "Ok")),
    (r"^Result::<.*>::is_err$", lambda it, c, a, m: z3.BoolVal(deref(a[0]).variant == "Err")),
    (r"^Vec::<.*>::insert$", m_vec_insert),
    (r"^Vec::<.*>::dedup$", m_vec_dedup),
    (r"^core::slice::<impl \[(u8|u16|u32|u64|usize|i32|i64)\]>::binary_search$", m_binary_search),
    (r"^<Cow<'_, (?!\[)[\w:]+> as Deref>::deref$", m_cow_deref),
    (r"^(std::ops::|core::ops::)?Range::<.*>::contains::<", m_range_contains),
    (r"^Vec::<.*>::resize$", m_vec_resize),
    (r"^(std::ops::|core::ops::)?RangeInclusive::<.*>::contains::<", m_range_inclusive_contains),
    (r"^<.* as Itertools>::sorted(_unstable)?_by_key::<", m_iter_sorted_by_key),
    (r"^<foldhash::(fast|quality)::FixedState as Default>::default$", lambda it, c, a, m: Adt("FixedState", [Int(0)])),
    (r"^(std::iter::|core::iter::)?once::<", lambda it, c, a, m: SeqIter([a[0]])),
    (r"^<Cow<'_, \[.*\]> as (Deref|AsRef<\[.*\]>)>::(deref|as_ref)$", m_cow_slice),
    (r"^<Vec<.*> as IntoIterator>::into_iter$", lambda it, c, a, m: m_vec_into_iter_by_value(it, c, a, m)),
    (r"^<\[.*; \d+\] as IntoIterator>::into_iter$", lambda it, c, a, m: m_array_into_iter(it, c, a, m)),
    (r"^<Option<.*> as IntoIterator>::into_iter$", lambda it, c, a, m: m_opt_into_iter(it, c, a, m)),
    (r"^Vec::<.*>::len$|^VecDeque::<.*>::len$|^core::slice::<impl \[.*\]>::len$", m_vec_len),
    (r"^Vec::<.*>::is_empty$|^VecDeque::<.*>::is_empty$|^core::slice::<impl \[.*\]>::is_empty$", m_is_empty),
    (r"^Vec::<.*>::new$|^Vec::<.*>::with_capacity$", m_vec_new),
    (r"^Vec::<.*>::push$", m_vec_push),
    (r"^Vec::<.*>::pop$", m_vec_pop),
    (r"^Vec::<.*>::clear$", m_vec_clear),
    (r"^Vec::<.*>::remove$", m_vec_remove),
    (r"^Vec::<.*>::truncate$", m_vec_truncate),
    (r"^VecDeque::<.*>::new$|^VecDeque::<.*>::with_capacity$", m_deque_new),
    (r"^VecDeque::<.*>::push_back$", m_deque_push_back),
    (r"^VecDeque::<.*>::pop_front$", m_deque_pop_front),
    (r"^<VecDeque<.*> as Extend<.*>>::extend::<", m_deque_extend),
    (r"^<Vec<.*> as Deref(Mut)?>::deref(_mut)?$|^Vec::<.*>::as_slice$|^Vec::<.*>::as_mut_slice$", m_vec_deref),
    (r"^<(Vec<.*>|\[.*\]) as (std::ops::)?Index(Mut)?<.*>>::index(_mut)?$", m_index),
    (r"^core::slice::<impl \[.*\]>::iter(_mut)?$", m_slice_iter),
    (r"^core::slice::<impl \[.*\]>::windows$", m_slice_windows),
    (r"^core::slice::<impl \[.*\]>::split::<", m_slice_split),
    (r"^core::slice::<impl \[.*\]>::first(_mut)?$", m_slice_first),
    (r"^core::slice::<impl \[.*\]>::last(_mut)?$", m_slice_last),
    (r"^core::slice::<impl \[.*\]>::get(_mut)?::<usize>$", m_slice_get),
    (r"^core::slice::<impl \[.*\]>::swap$", m_slice_swap),
    (r"^core::slice::<impl \[.*\]>::contains$", m_slice_contains),
    (r"^std::slice::<impl \[.*\]>::sort_by_key::<|^core::slice::<impl \[.*\]>::sort_unstable_by_key::<|^std::slice::<impl \[.*\]>::sort_by_cached_key::<", m_sort_by_key),
    (r"^Vec::<.*>::retain::<", m_vec_retain),
    (r"^Vec::<.*>::dedup_by::<", m_vec_dedup_by),
    (r"^Vec::<.*>::dedup_by_key::<", m_vec_dedup_by_key),
    (r"^(std|core|alloc)::str::<impl str>::to_lowercase$", m_str_to_lowercase),
    (r"^Vec::<.*>::extend_from_slice$", m_extend_from_slice),
    (IT + r"::peekable$", m_peekable),
    (r"^<.* as Itertools>::tuple_windows::<", m_tuple_windows),
    (r"^<Option<.*> as IntoIterator>::into_iter$", m_opt_into_iter),
    (r"^RangeInclusive::<.*>::new$", m_range_inclusive_new),
    (r"^Peekable::<.*>::peek$", m_peek),
    (r"^<(Rc|Arc)<.*> as Deref>::deref$", m_rc_deref),
    (IT + r"::into_iter$", m_into_iter),
    (IT + r"::enumerate$", m_enumerate),
    (IT + r"::rev$", m_rev),
    (IT + r"::map::<", m_map),
    (IT + r"::filter::<", m_filter),
    (IT + r"::filter_map::<", m_filter_map),
    (IT + r"::zip::<", m_zip),
    (IT + r"::flat_map::<", m_flat_map),
    (IT + r"::flatten$", m_flatten),
    (r"^<\[.*; \d+\] as IntoIterator>::into_iter$", m_array_into_iter),
    (r"^<.* as Itertools>::minmax$", m_minmax),
    (IT + r"::skip$", m_skip),
    (IT + r"::take$", m_take),
    (IT + r"::(cloned|copied)::<", m_cloned),
    (IT + r"::take_while::<", m_take_while),
    (IT + r"::skip_while::<", m_skip_while),
    (IT + r"::nth$", m_nth),
    (IT + r"::sum::<usize>$", m_sum_usize),
    (r"^<(hashbrown::|std::collections::)?HashMap<.*> as Default>::default$|^(hashbrown::)?HashMap::<.*>::new$", m_hash_new),
    (r"^(hashbrown::)?HashMap::<.*>::(get|get_mut)::<", m_hash_get),
    (r"^(hashbrown::)?HashMap::<.*>::contains_key::<", m_hash_contains),
    (r"^(hashbrown::)?HashMap::<.*>::insert$", m_hash_insert),
    (r"^(hashbrown::)?HashMap::<.*>::values$", m_hash_values),
    (r"^(hashbrown::)?HashMap::<.*>::len$", m_hash_len),
    (r"^core::bool::<impl bool>::then::<", m_bool_then),
    (r"^SmallVec::<.*>::extend_from_slice$", m_extend_from_slice),
    (r"^<(std::string::)?String as Default>::default$|^(std::string::)?String::new$|^(std::string::)?String::with_capacity$", lambda it, c, a, m: StringObj([])),
    (r"^(std::string::)?String::push$", lambda it, c, a, m: (deref(a[0]).chars.append(copy_val(a[1])), ())[1]),
    (r"^(std::string::)?String::push_str$", lambda it, c, a, m: (deref(a[0]).chars.extend(copy_val(x) for x in deref(a[1]).chars), ())[1]),
    (r"^<&?str as PartialEq(<&?str>)?>::(eq)$|^<(std::string::)?String as PartialEq(<&?str>|<(std::string::)?String>)?>::eq$|^<&?str as PartialEq<(std::string::)?String>>::eq$", m_str_eq),
    (r"^<&?str as PartialEq(<&?str>)?>::ne$|^<(std::string::)?String as PartialEq(<&?str>|<(std::string::)?String>)?>::ne$", lambda it, c, a, m: z3.Not(m_str_eq(it, c, a, m))),
    (r"^<Cow<'_, \[.*\]> as PartialEq(<.*>)?>::eq$|^<&?\[.*\] as PartialEq<Cow<'_, \[.*\]>>>::eq$|^<SmallVec<.*> as PartialEq>::eq$|^<Vec<char> as PartialEq(<.*>)?>::eq$|^<&?\[char\] as PartialEq(<&?\[char\]>)?>::eq$", m_slice_eq),
    (r"^(std|core|alloc)::slice::<impl \[&str\]>::join::<&str>$", m_str_join),
    (r"^(std|core|alloc)::str::<impl str>::to_ascii_lowercase$", m_str_to_ascii_lowercase),
    (r"^SmallVec::<.*>::clear$", m_vec_clear),
    (r"^<(usize|u8|u32|u64) as Default>::default$", lambda it, c, a, m: Int(z3.BitVecVal(0, {"usize": 64, "u64": 64, "u32": 32, "u8": 8}[m.group(1)]), {"usize": 64, "u64": 64, "u32": 32, "u8": 8}[m.group(1)], False)),
    (r"^(core::panicking::|std::rt::)?(panic|panic_fmt|panic_display|unreachable_display|panic_explicit|begin_panic|panic_nounwind)(::<.*>)?$", m_explicit_panic),
    (r"^<str as ToOwned>::to_owned$|^<str as Into<String>>::into$|^<String as From<&str>>::from$", m_string_to_string),
    (r"^core::str::<impl str>::eq_ignore_ascii_case$", lambda it, c, a, m: (lambda x, y: z3.BoolVal(False) if len(x.chars) != len(y.chars) else z3.And(*[ascii_lower(p) == ascii_lower(q) for p, q in zip(x.chars, y.chars)]) if x.chars else z3.BoolVal(True))(deref(a[0]), deref(a[1]))),
    (r"^(std::string::)?String::as_str$|^(std::string::)?String::as_mut_str$", m_string_deref),
    (r"^<(std::string::)?String as FromIterator<&?char>>::from_iter::<", m_collect_string),
    (r"^<&?\[(char|u8|usize)\] as PartialEq<&?\[(char|u8|usize)(; \d+)?\]>>::eq$|^<\[(char|u8|usize); \d+\] as PartialEq<&?\[(char|u8|usize)\]>>::eq$", lambda it, c, a, m: z3.BoolVal(val_eq(it, as_slice(a[0]), as_slice(a[1])))),
    (r"^(hashbrown::)?HashMap::<.*>::keys$", m_hash_keys),
    (r"^<(hashbrown::)?HashMap<.*> as From<\[.*; \d+\]>>::from$", m_hash_from_array),
    (r"^core::slice::<impl \[.*\]>::ends_with$", m_slice_ends_with),
    (r"^core::slice::<impl \[.*\]>::starts_with$", m_slice_starts_with),
    (r"^core::fmt::rt::Argument::<'_>::new_(display|debug)::<", m_fmt_argument),
    (r"^(core::fmt::|std::fmt::)?Arguments::<'_>::new(_v1|_const|_v1_formatted)?(::<.*>)?$", m_fmt_arguments),
    (r"^(core::hint::|std::hint::)?must_use::<", lambda it, c, a, m: a[0]),
    (r"^<Box<.*> as AsRef<.*>>::as_ref$", lambda it, c, a, m: a[0].get() if isinstance(a[0], Ref) and isinstance(a[0].get(), Ref) else a[0]),
    (r"^(alloc|std)::fmt::format$|^format$", m_fmt_format),
    (r"^<(std::)?slice::Iter(Mut)?<'_, .*> as ExactSizeIterator>::len$", m_exact_len),
    (r"^<(std::iter::)?Map<(std::)?slice::Iter(Mut)?<'_, .*>, .*> as ExactSizeIterator>::len$", m_exact_len),
    (IT + r"::sum::<(?P<ty>u8|u16|u32|u64)>$", m_sum_int),
    (IT + r"::fold::<", m_fold),
    (IT + r"::max$", m_iter_max),
    (IT + r"::min$", m_iter_min),
    (IT + r"::chain::<", m_chain),
    (IT + r"::next$", m_next),
    (IT + r"::next_back$", m_next_back),
    (IT + r"::all::<", m_all),
    (IT + r"::any::<", m_any),
    (IT + r"::count$", m_count),
    (IT + r"::position::<", m_position),
    (IT + r"::find::<", m_find),
    (IT + r"::last$", m_last),
    (IT + r"::collect::<Vec<", m_collect_vec),
    (IT + r"::for_each::<", m_for_each),
    (r"^Option::<.*>::is_some$", m_opt_is_some),
    (r"^Option::<.*>::is_none$", m_opt_is_none),
    (r"^Option::<.*>::(unwrap|expect)$", m_opt_unwrap),
    (r"^Option::<.*>::unwrap_or$", m_opt_unwrap_or),
    (r"^Option::<.*>::(copied|cloned)$", m_opt_copied),
    (r"^<Option<.*> as Try>::branch$", m_opt_try_branch),
    (r"^<Option<.*> as FromResidual<.*>>::from_residual$", m_opt_from_residual),
    (r"^Option::<.*>::map::<", m_opt_map),
    (r"^Option::<.*>::map_or::<", m_opt_map_or),
    (r"^Option::<.*>::map_or_else::<", m_opt_map_or_else),
    (r"^Option::<.*>::unwrap_or_else::<", m_opt_unwrap_or_else),
    (r"^Option::<.*>::and_then::<", m_opt_and_then),
    (r"^Option::<.*>::or$", m_opt_or),
    (r"^Option::<.*>::filter::<", m_opt_filter),
    (r"^Option::<.*>::is_some_and::<", m_opt_is_some_and),
    (r"^Option::<.*>::is_none_or::<", m_opt_is_none_or),
    (r"^Option::<.*>::zip::<", m_opt_zip),
    (r"^(core::)?char::methods::<impl char>::len_utf16$", m_len_utf16),
    (r"^(core::)?char::methods::<impl char>::len_utf8$", m_len_utf8),
    (r"^<(usize|u8|u32|u64|char) as Ord>::cmp$", m_int_cmp),
    (r"^core::slice::<impl \[.*\]>::binary_search_by::<", m_binary_search_by),
    (r"^<(std::ops::)?Range<usize> as ExactSizeIterator>::len$|^(std::ops::)?Range::<usize>::len$", m_range_len),
    (r"^core::str::<impl str>::len$", m_string_len),
    (r"^<\[.*\] as ToSmallVec<.*>>::to_smallvec$", m_into_smallvec),
    (r"^<&\[.*\] as Into<SmallVec<.*>>>::into$", m_into_smallvec),
    (r"^Vec::<.*>::is_empty$", m_is_empty),
    (r"^Option::<.*>::(as_ref|as_mut)$", m_opt_as_ref),
    (r"^Option::<.*>::take$", m_opt_take),
    (r"^(std|core)::cmp::max::<(usize|u8|u32|u64|i32)>$|^<(usize|u8|u32|u64|i32) as Ord>::max$|^core::cmp::Ord::max$", m_int_max),
    (r"^(std|core)::cmp::min::<(usize|u8|u32|u64|i32)>$|^<(usize|u8|u32|u64|i32) as Ord>::min$|^core::cmp::Ord::min$", m_int_min),
    (r"^core::num::<impl usize>::saturating_sub$", m_saturating_sub),
    (r"^core::num::<impl usize>::wrapping_sub$", m_wrapping_sub),
    (r"^core::num::<impl usize>::wrapping_add$", m_wrapping_add),
    (r"^core::num::<impl usize>::checked_sub$", m_checked_sub),
    (r"^<Vec<.*> as Default>::default$", m_vec_new),
    (r"^<VecDeque<.*> as Default>::default$", m_deque_new),
    (r"^LocalKey::<.*>::with::<", m_localkey_with),
    (r"^LocalKey::<RefCell<.*>>::with_borrow(_mut)?::<", m_localkey_borrow),
    (r"^RefCell::<.*>::new$", lambda it, c, a, m: a[0]),
    (r"^Box::<\[.*; \d+\]>::new_uninit$", m_box_new_uninit),
    (r"^(std::boxed::)?box_assume_init_into_vec_unsafe::<", m_box_into_vec),
    (r"^core::str::<impl str>::chars$", m_str_chars),
    (IT + r"::collect::<(smallvec::)?SmallVec<", m_collect_smallvec),
    (r"^SmallVec::<.*>::(new|default)$|^<SmallVec<.*> as Default>::default$", m_vec_new),
    (r"^SmallVec::<.*>::push$", m_vec_push),
    (r"^SmallVec::<.*>::len$", m_vec_len),
    (r"^SmallVec::<.*>::is_empty$", m_is_empty),
    (r"^<SmallVec<.*> as Deref(Mut)?>::deref(_mut)?$|^SmallVec::<.*>::as_slice$", m_vec_deref),
    (r"^<&SmallVec<.*> as IntoIterator>::into_iter$", lambda it, c, a, m: SeqIter(slice_refs(as_slice(a[0])))),
    (r"^(Rc|Arc)::<.*>::new$", m_rc_new),
    (r"^<.* as Into<(Rc|Arc)<.*>>>::into$|^<(Rc|Arc)<.*> as From<.*>>::from$", m_rc_new),
    (r"^Box::<.*>::new$", m_box_new),
    (r"^<(Rc|Arc)<.*> as Clone>::clone$", m_identity),
    (r"^<.* as Fn(Mut|Once)?<\(.*\)>>::call(_mut|_once)?$", m_fn_call),
    (r"^<(Option<.*>|&?char|&?usize|&?u8|&?bool|\(.*\)) as PartialEq(<.*>)?>::eq$", m_partial_eq),
    (r"^<(Option<.*>|&?char|&?usize|&?u8|&?bool|\(.*\)) as PartialEq(<.*>)?>::ne$", m_partial_ne),
    (r"^(std|core)::mem::swap::<", m_mem_swap),
    (r"^<.* as AsRef<str>>::as_ref$|^<.* as AsRef<\[.*\]>>::as_ref$|^<str as Borrow<str>>::borrow$", m_identity),
    (r"^<.* as Clone>::clone$", m_clone),
    (r"^<&mut BTreeMap<.*> as IntoIterator>::into_iter$", m_btree_iter_mut),
    (r"^<&BTreeMap<.*> as IntoIterator>::into_iter$|^BTreeMap::<.*>::iter$", m_btree_iter),
    (r"^BTreeMap::<.*>::get::<", m_btree_get),
    (r"^BTreeMap::<.*>::contains_key::<", m_btree_contains_key),
    (r"^BTreeMap::<.*>::insert$", m_btree_insert),
    (r"^BTreeMap::<.*>::remove::<", m_btree_remove),
    (r"^BTreeMap::<.*>::values(_mut)?$", m_btree_values_mut),
    (r"^BTreeMap::<.*>::keys$", lambda it, c, a, m: SeqIter([Ref(Cell(k)) for k, _c in deref(a[0]).entries])),
    (r"^BTreeMap::<.*>::len$", lambda it, c, a, m: usize(len(deref(a[0]).entries))),
    (r"^<btree_map::(Values|Keys)<.*> as Iterator>::next$", m_next),
    (r"^<btree_map::(Values|Keys)<.*> as IntoIterator>::into_iter$", m_identity),
    (r"^BTreeMap::<.*>::new$|^<BTreeMap<.*> as Default>::default$", m_btree_new),
    (r"^<btree_map::(Iter|ValuesMut|IterMut)<.*> as Iterator>::next$", m_next),
    (r"^<btree_map::(Iter|ValuesMut|IterMut)<.*> as IntoIterator>::into_iter$", m_identity),
    (r"^Option::<Option<.*>>::flatten$", m_opt_flatten),
    (r"^<(std::string::)?String as ToString>::to_string$|^<impl ToString as ToString>::to_string$|^<str as ToString>::to_string$", m_string_to_string),
    (r"^(std::string::)?String::as_bytes$|^core::str::<impl str>::as_bytes$", m_string_as_bytes),
    (r"^<.* as Hasher>::write$", m_hasher_write),
    (r"^<.* as Hasher>::write_u8$", m_hasher_write_u8),
    (r"^<btree_map::IterMut<.*> as Iterator>::next$", m_next),
    (r"^LruCache::<.*>::get::<", m_lru_get),
    (r"^LruCache::<.*>::put$", m_lru_put),
    (r"^<&\[char\] as Into<SmallVec<\[char; \d+\]>>>::into$", m_into_smallvec),
    (r"^<Vec<.*> as Extend<.*>>::extend::<", m_vec_extend_vec),
    (r"^Vec::<.*>::append$", m_vec_append),
    (r"^<&(mut )?Vec<.*> as IntoIterator>::into_iter$", lambda it, c, a, m: SeqIter(slice_refs(as_slice(a[0])))),
    (r"^<std::slice::IterMut<'_, .*> as Iterator>::next$", m_next),
    (r"^(core::)?char::methods::<impl char>::is_whitespace$", m_is_whitespace),
    (r"^core::slice::<impl \[.*\]>::get::<(std::ops::)?Range<usize>>$", m_slice_get_range),
    (r"^(core::)?char::methods::<impl char>::eq_ignore_ascii_case$", m_eq_ignore_ascii_case),
    (r"^(core::)?char::methods::<impl char>::to_ascii_lowercase$", m_to_ascii_lowercase),
    (r"^(core::)?char::methods::<impl char>::to_ascii_uppercase$", m_to_ascii_uppercase),
    (r"^(core::)?char::methods::<impl char>::is_ascii_uppercase$", m_is_ascii_uppercase),
    (r"^(core::)?char::methods::<impl char>::is_ascii_lowercase$", m_is_ascii_lowercase),
    (r"^(core::)?char::methods::<impl char>::is_ascii_hexdigit$", m_is_ascii_hexdigit),
    (r"^(core::)?char::methods::<impl char>::is_ascii_digit$", m_is_ascii_digit),
    (r"^(core::)?char::methods::<impl char>::is_ascii_alphanumeric$", m_is_ascii_alphanumeric),
    (r"^(core::)?char::methods::<impl char>::is_ascii_alphabetic$", m_is_ascii_alphabetic),
    (r"^(core::)?char::methods::<impl char>::is_alphanumeric$", m_is_alphanumeric),
    (r"^(core::)?char::methods::<impl char>::is_alphabetic$", m_is_alphabetic),
    (r"^(core::)?char::methods::<impl char>::is_numeric$", m_is_numeric),
    (r"^(core::)?char::methods::<impl char>::is_lowercase$", m_is_lowercase),
    (r"^(core::)?char::methods::<impl char>::is_uppercase$", m_is_uppercase),
    (r"^(core::)?char::methods::<impl char>::to_(lower|upper)case$", m_to_lowercase),
    (r"^SmallVec::<.*>::to_vec$|^(core|std)::slice::<impl \[.*\]>::to_vec$|^SmallVec::<.*>::into_vec$", m_to_vec),
    (r"^SmallVec::<.*>::with_capacity$", m_vec_new),
    (r"^<SmallVec<.*> as Extend<.*>>::extend::<", m_vec_extend_vec),
    (IT + r"::collect::<(std::string::)?String>$", m_collect_string),
    (r"^<(std::string::)?String as Deref>::deref$", m_string_deref),
    (r"^(std::string::)?String::len$", m_string_len),
    (r"^(std::string::)?String::pop$", m_string_pop),
    (r"^(std::string::)?String::is_empty$", m_string_is_empty),
    (r"^core::str::<impl str>::parse::<f64>$", m_parse_f64),
    (r"^core::bool::<impl bool>::then_some::<", m_bool_then_some),
    (IT + r"::find_map::<", m_find_map),
    (r"^Option::<.*>::unwrap_or_default$", m_opt_unwrap_or_default),
    (r"^<f64 as Into<OrderedFloat<f64>>>::into$", lambda it, c, a, m: Adt("OrderedFloat", [a[0]])),
    (r"^core::num::<impl u64>::from_str_radix$", m_from_str_radix_u64),
    (r"^Result::<.*>::(unwrap|expect)$", m_result_unwrap),
    (r"^Result::<.*>::ok$", m_result_ok),
    (r"^<&?(?:'\w+ )?usize as Add<&?(?:'\w+ )?usize>>::add$", m_add_checked),
    (r"^<&?(?:'\w+ )?usize as Sub<&?(?:'\w+ )?usize>>::sub$", m_sub_checked),
]

"""Arbitrary values of harper's plain data types (the `kani::any()` of mirsym).

Struct definitions are read from /repo's sources on every run; a value of a type is built from its definition:
`bool` -> a fresh z3 Boolean, integers -> fresh bit-vectors, `Option<T>` and field-less enums -> a LazyEnum whose variant is
decided by forking the first time the executed code looks at it (so only what the code inspects costs paths), structs ->
their fields, recursively.
"""
import glob
import os
import re
import z3
from mir import Unsupported, split_top
from exec import Int, Adt, Enum, LazyEnum
from adts import strip_comments

INT_BITS = {"u8": 8, "u16": 16, "u32": 32, "u64": 64, "usize": 64, "i8": 8, "i16": 16, "i32": 32, "i64": 64, "isize": 64}


def load_structs(crate_src_dir):
    """{struct name: [(field name, type text)]} for the brace structs of the crate (tuple structs: fields named 0, 1, ..)"""
    table = {}
    for path in glob.glob(os.path.join(crate_src_dir, "**", "*.rs"), recursive=True):
        src = strip_comments(open(path).read())
        src = re.sub(r"#\s*!?\[[^\]]*\]", " ", src)
        for m in re.finditer(r"\bstruct\s+(\w+)\s*(?:<[^>{(;]*>)?\s*(\{|\(|;)", src):
            name, opener = m.group(1), m.group(2)
            if opener == ";":
                fields = []
            else:
                close = {"{": "}", "(": ")"}[opener]
                i, depth, body = m.end(), 1, ""
                while i < len(src) and depth > 0:
                    c = src[i]
                    if c in "{([":
                        depth += 1
                    elif c in "})]":
                        depth -= 1
                    if depth > 0:
                        body += c
                    i += 1
                fields = []
                for k, part in enumerate(split_top(body)):
                    part = re.sub(r"^\s*pub(\([^)]*\))?\s+", "", part.strip())
                    if not part:
                        continue
                    if opener == "{":
                        fm = re.match(r"^(\w+)\s*:\s*(.+)$", part, re.S)
                        if not fm:
                            fields = None
                            break
                        fields.append((fm.group(1), " ".join(fm.group(2).split())))
                    else:
                        fields.append((str(k), " ".join(part.split())))
            if name in table and table[name] != fields:
                table[name] = None  # ambiguous
            else:
                table[name] = fields
    return table


class AnyBuilder:
    def __init__(self, ctx, structs, enums):
        self.ctx, self.structs, self.enums = ctx, structs, enums
        self.n = 0
        self.lazies = []  # (tag, LazyEnum) for counterexample printing

    def fresh(self, tag):
        self.n += 1
        return f"{tag}#{self.n}"

    def any(self, ty, tag):
        ty = ty.strip()
        if ty == "bool":
            return z3.Bool(self.fresh(tag))
        if ty in INT_BITS:
            return Int(z3.BitVec(self.fresh(tag), INT_BITS[ty]), INT_BITS[ty], ty.startswith("i"))
        if ty == "char":
            c = z3.BitVec(self.fresh(tag), 32)
            self.ctx.assume(z3.And(z3.ULE(c, 0x10FFFF), z3.Or(z3.ULT(c, 0xD800), z3.UGT(c, 0xDFFF))))
            return Int(c, 32, False)
        m = re.fullmatch(r"Option<(.+)>", ty)
        if m:
            inner = m.group(1)
            lz = LazyEnum(self.ctx, z3.BitVec(self.fresh(tag + "?"), 8),
                          [("None", 0, lambda: []), ("Some", 1, lambda: [self.any(inner, tag + ".some")])])
            self.lazies.append((tag, lz))
            return lz
        base = re.sub(r"<.*>", "", ty).split("::")[-1]
        if self.structs.get(base) is not None and base in self.structs:
            return Adt(base, [self.any(t, f"{tag}.{f}") for f, t in self.structs[base]])
        vs = self.enums.get(base)
        if vs:
            # only field-less enums can be built without knowing payload types
            lz = LazyEnum(self.ctx, z3.BitVec(self.fresh(tag + "!"), 8), [(v, i, (lambda: [])) for i, v in enumerate(vs)])
            self.lazies.append((tag, lz))
            return lz
        raise Unsupported(f"no arbitrary value for type {ty}")

    def describe(self, model):
        out = {}
        for tag, lz in self.lazies:
            out[tag] = lz.describe(model)
        return out


def to_json(v, model, structs):
    """the concrete value a model gives to an arbitrary value, in serde's default JSON form; parts the executed code never
    looked at are None / false / 0 / the first variant"""
    from exec import Ref
    while isinstance(v, Ref):
        v = v.get()
    if isinstance(v, LazyEnum):
        if v._forced is None:
            names = [o[0] for o in v._options]
            return None if names == ["None", "Some"] else names[0]
        var, _idx, fields = v._forced
        if var == "None" and [o[0] for o in v._options] == ["None", "Some"]:
            return None
        if var == "Some":
            return to_json(fields[0], model, structs)
        return var
    if isinstance(v, Adt):
        fs = structs.get(v.name)
        if fs is None:
            raise Unsupported(f"cannot print a value of type {v.name}")
        return {f: to_json(x, model, structs) for (f, _t), x in zip(fs, v.fields)}
    if isinstance(v, Int):
        return model.eval(v.t, model_completion=True).as_long()
    if z3.is_bool(v):
        return bool(z3.is_true(model.eval(v, model_completion=True)))
    raise Unsupported(f"cannot print {type(v)}")

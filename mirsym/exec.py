"""A small path-forking symbolic executor for rustc MIR (textual dump), with z3 deciding
branch feasibility and assertions.

Data structures keep a *concrete shape* on every path (vector lengths, enum variants,
loop trip counts are concrete; integers and booleans inside them are z3 terms). Whenever
control depends on a symbolic value the path forks; paths are explored depth-first by
re-execution with a recorded decision prefix. Calls into the standard library are not
interpreted - they are dispatched to the hand-written models in models.py (trusted, listed
in the evidence). Everything unsupported raises mir.Unsupported -> inconclusive, never a pass.
"""
import os
import re
import z3
from mir import parse_operand, Unsupported, parse_fn, parse_stmt, parse_term


# ------------------------------------------------------------------ values
class Int:
    __slots__ = ("t", "bits", "signed")

    def __init__(self, t, bits=64, signed=False):
        if isinstance(t, int):
            t = z3.BitVecVal(t, bits)
        self.t, self.bits, self.signed = t, bits, signed

    def __repr__(self):
        return f"Int({z3.simplify(self.t)})"


class Tup:
    def __init__(self, items):
        self.items = list(items)


class Adt:
    def __init__(self, name, fields):
        self.name, self.fields = name, list(fields)


class Enum:
    """variant: 'None'/'Some'/... ; idx: discriminant value"""

    def __init__(self, variant, idx, fields=()):
        self.variant, self.idx, self.fields = variant, idx, list(fields)


class LazyEnum(Enum):
    """an enum value whose variant is decided - by forking on a selector variable - the first time the executed code (or a
    model) looks at it; code that never inspects the value costs no paths. options: [(variant, idx, fields_factory)]"""

    def __init__(self, ctx, sel, options):
        self._ctx, self._sel, self._options, self._forced = ctx, sel, options, None

    def _force(self):
        if self._forced is None:
            n = len(self._options)
            self._ctx.assume(z3.ULT(self._sel, z3.BitVecVal(n, self._sel.size())))
            k = self._ctx.choose(self._sel, list(range(n)))
            var, idx, fac = self._options[k]
            self._forced = (var, idx, list(fac()))
        return self._forced

    variant = property(lambda self: self._force()[0])
    idx = property(lambda self: self._force()[1])
    fields = property(lambda self: self._force()[2])

    def describe(self, model):
        if self._forced is None:
            return "any"
        return self._forced[0]


class Cell:
    """a mutable memory cell (locals, vector elements, ...)"""
    __slots__ = ("v",)

    def __init__(self, v=None):
        self.v = v


class Ref:
    """a reference = an lvalue: (cell, projection path)"""

    def __init__(self, cell, path=()):
        self.cell, self.path = cell, tuple(path)

    def get(self):
        v = self.cell.v
        for p in self.path:
            v = project_get(v, p)
        return v

    def set(self, val):
        if not self.path:
            self.cell.v = val
            return
        v = self.cell.v
        for p in self.path[:-1]:
            v = project_get(v, p)
        project_set(v, self.path[-1], val)


class BoxRef(Ref):
    """an owning pointer (Box<T>, Rc<T>, Arc<T>): behaves as a reference; `.0` projections peel its wrappers"""


def project_get(v, p):
    kind = p[0]
    if kind == "field":
        if isinstance(v, Tup):
            return v.items[p[1]]
        if isinstance(v, (Adt, Enum)):
            return v.fields[p[1]]
        if isinstance(v, BoxRef) and p[1] == 0:
            # Box<T> / Unique<T> / NonNull<T> are represented by the pointer itself: `.0` peels a wrapper
            return v
        raise Unsupported(f"field of {type(v)}")
    if kind == "downcast":
        if not isinstance(v, Enum) or v.variant != p[1]:
            raise Unsupported(f"downcast {p[1]} of {getattr(v,'variant',v)}")
        return v
    if kind == "elem":
        return v.elems[p[1]].v
    raise Unsupported(f"projection {p}")


def project_set(v, p, val):
    if p[0] == "field":
        if isinstance(v, Tup):
            v.items[p[1]] = val
        else:
            v.fields[p[1]] = val
        return
    if p[0] == "elem":
        v.elems[p[1]].v = val
        return
    raise Unsupported(f"set projection {p}")


def copy_val(v):
    """MIR copy/move of a value: aggregates are copied structurally, heap objects (Vec, deque, ...) move by identity."""
    if isinstance(v, Tup):
        return Tup([copy_val(x) for x in v.items])
    if isinstance(v, Adt) and not getattr(v, "heap", False):
        a = Adt(v.name, [copy_val(x) for x in v.fields])
        if hasattr(v, "origin"):
            a.origin = v.origin
        if hasattr(v, "tl_name"):
            a.tl_name = v.tl_name
        if hasattr(v, "fn_name"):
            a.fn_name = v.fn_name
        return a
    if isinstance(v, LazyEnum) and v._forced is None:
        return v  # still undecided: copies share the decision
    if isinstance(v, Enum):
        return Enum(v.variant, v.idx, [copy_val(x) for x in v.fields])
    return v


# ------------------------------------------------------------------ exploration control
NOTHING = object()


class PathEnd(Exception):
    pass


class Infeasible(Exception):
    pass


class Panic(Exception):
    def __init__(self, msg, where):
        self.msg, self.where = msg, where


class Explorer:
    """Depth-first exploration by re-execution. `run(body)` calls body(ctx) once per path."""

    def __init__(self, max_paths=200000, timeout_ms=60000):
        self.solver = z3.Solver()
        self.solver.set("timeout", timeout_ms)
        self.max_paths = max_paths
        self.stats = {"paths": 0, "queries": 0, "solver_s": 0.0, "forks": 0}

    def run(self, body):
        import time
        work = [[]]
        while work:
            prefix = work.pop()
            if self.stats["paths"] >= self.max_paths:
                raise Unsupported("path budget exhausted")
            ctx = PathCtx(self, prefix)
            self.solver.push()
            try:
                body(ctx)
            finally:
                self.solver.pop()
            self.stats["paths"] += 1
            for alt in ctx.new_work:
                work.append(alt)

    def check(self, *extra):
        import time
        t0 = time.time()
        r = self.solver.check(*extra)
        self.stats["solver_s"] += time.time() - t0
        self.stats["queries"] += 1
        if r == z3.unknown:
            raise Unsupported("solver returned unknown: " + self.solver.reason_unknown())
        return r


class PathCtx:
    def __init__(self, ex, prefix):
        self.ex, self.prefix, self.pos = ex, prefix, 0
        self.decisions = []
        self.new_work = []
        self.pc = []
        self.fresh = 0

    def assume(self, cond):
        self.pc.append(cond)
        self.ex.solver.add(cond)

    def branch(self, cond):
        """Decide a symbolic boolean; forks when both sides are feasible."""
        cond = z3.simplify(cond)
        if z3.is_true(cond):
            return True
        if z3.is_false(cond):
            return False
        if self.pos < len(self.prefix):
            d = self.prefix[self.pos]
            self.pos += 1
            self.decisions.append(d)
            self.assume(cond if d else z3.Not(cond))
            return d
        can_t = self.ex.check(cond) == z3.sat
        can_f = self.ex.check(z3.Not(cond)) == z3.sat
        if can_t and can_f:
            self.ex.stats["forks"] += 1
            self.new_work.append(self.decisions + [False])
            d = True
        elif can_t:
            d = True
        elif can_f:
            d = False
        else:
            raise Infeasible()
        self.pos += 1
        self.decisions.append(d)
        self.assume(cond if d else z3.Not(cond))
        return d

    def choose(self, term, candidates):
        """Concretise an integer term to one of `candidates` (python ints) by forking."""
        for c in candidates[:-1]:
            if self.branch(term == z3.BitVecVal(c, term.size())):
                return c
        last = candidates[-1]
        if not self.branch(term == z3.BitVecVal(last, term.size())):
            raise Unsupported("value outside the candidate set")
        return last

    def valid(self, claim, prefer=()):
        """Is `claim` implied by the path condition? Returns (True, None) or (False, model). `prefer` are
        optional extra constraints (e.g. printable characters) used to pick a nicer counterexample if one exists."""
        r = self.ex.check(z3.Not(claim))
        if r == z3.unsat:
            return True, None
        if prefer:
            if self.ex.solver.check(z3.Not(claim), *prefer) == z3.sat:
                return False, self.ex.solver.model()
            # not all preferences can hold on this path: keep as many as possible (greedily, in order)
            kept = []
            for p in prefer:
                if self.ex.solver.check(z3.Not(claim), *(kept + [p])) == z3.sat:
                    kept.append(p)
            if self.ex.solver.check(z3.Not(claim), *kept) == z3.sat:
                return False, self.ex.solver.model()
            self.ex.check(z3.Not(claim))
        return False, self.ex.solver.model()


def strip_turbofish(callee):
    """drop a trailing `::<...>` (balanced) from a callee path"""
    c = callee.strip()
    if not c.endswith(">"):
        return c
    depth = 0
    for i in range(len(c) - 1, -1, -1):
        ch = c[i]
        if ch == ">" and not (i > 0 and c[i - 1] in "-="):
            depth += 1
        elif ch == "<":
            depth -= 1
            if depth == 0:
                return c[:i - 2] if c[i - 2:i] == "::" else c
    return c


# ------------------------------------------------------------------ interpreter
class Frame:
    def __init__(self, fn):
        self.fn = fn
        self.cells = {}

    def cell(self, name):
        c = self.cells.get(name)
        if c is None:
            c = self.cells[name] = Cell()
        return c


class Interp:
    def __init__(self, raw_fns, models, ctx, resolve_map=None, max_steps=200000, enums=None):
        self.raw, self.models, self.ctx = raw_fns, models, ctx
        self.enums = enums or {"Option": ["None", "Some"]}
        self.repo_root = os.environ.get("MIRSYM_REPO_ROOT", "/repo")
        from adts import load_type_names
        global _TYPE_NAMES
        if "_TYPE_NAMES" not in globals() or _TYPE_NAMES[0] != self.repo_root:
            _TYPE_NAMES = (self.repo_root, load_type_names(os.path.join(self.repo_root, "harper-core", "src")))
        self.harper_types = _TYPE_NAMES[1]
        self.impl_cache = {}
        self.parsed = {}
        self.resolve_map = resolve_map or {}
        self.max_steps = max_steps
        self.steps = 0
        self.panics = []  # (msg, where, model) - possible panics found on this path
        self.called = set()
        self.closure_cache = {}

    # ---- function lookup
    def get_fn(self, name):
        if name not in self.parsed:
            if name not in self.raw:
                raise Unsupported(f"no MIR for {name}")
            header, body = self.raw[name][0]
            self.parsed[name] = parse_fn(header, body)
        return self.parsed[name]

    def closure_fn(self, clos):
        """The MIR body of a closure value. Closure types are printed as `{closure@file:line:col}`, which is
        ambiguous for macro-generated code, so the function that created the closure (recorded on the value)
        disambiguates: its closures are named `<creator>::{closure#k}`."""
        closure_ty = clos.name if not isinstance(clos, str) else clos
        origin = getattr(clos, "origin", None)
        key = (closure_ty, origin)
        if key in self.closure_cache:
            return self.closure_cache[key]
        cands = []
        for name, lst in self.raw.items():
            if "{closure#" not in name:
                continue
            m = re.search(r"_1: &?(?:mut )?(\{closure@[^}]*\})", lst[0][0])
            if m and m.group(1) == closure_ty:
                cands.append(name)
        if origin is not None:
            pat = re.compile("^" + re.escape(origin) + r"::\{closure#\d+\}$")
            narrowed = [n for n in cands if pat.match(n)]
            if narrowed:
                cands = narrowed
        if len(cands) != 1:
            raise Unsupported(f"closure body not uniquely found for {closure_ty} created in {origin}: {cands[:3]}")
        self.closure_cache[key] = cands[0]
        return cands[0]

    # ---- execution
    def call_fn(self, name, args):
        fn = self.get_fn(name)
        self.called.add(name)
        fr = Frame(fn)
        if len(args) != len(fn.params):
            raise Unsupported(f"arity mismatch calling {name}")
        for (pname, _), a in zip(fn.params, args):
            fr.cell(pname).v = a
        bb = "bb0"
        while True:
            blk = fn.blocks[bb]
            for si, s in enumerate(blk["stmts"]):
                fr.cur = (bb, si)
                self.steps += 1
                if self.steps > self.max_steps:
                    raise Unsupported("step budget exhausted (unbounded loop?)")
                try:
                    self.exec_stmt(fr, s)
                except Unsupported as e:
                    if " [in " not in str(e):
                        raise Unsupported(f"{e} [in {name} {bb}: {s[:120]}]")
                    raise
                except (IndexError, AttributeError, TypeError) as e:
                    raise Unsupported(f"interpreter error {type(e).__name__}: {e} [in {name} {bb}: {s[:160]}]")
            t = parse_term(blk["term"])
            k = t[0]
            if k == "goto":
                bb = t[1]
            elif k == "return":
                return fr.cell("_0").v if fr.cells.get("_0") and fr.cell("_0").v is not None else ()
            elif k == "unreachable":
                raise Unsupported(f"reached `unreachable` in {name} {bb}")
            elif k == "resume":
                raise Unsupported("unwinding path executed")
            elif k == "switch":
                v = self.operand(fr, t[1])
                bb = self.switch(v, t[2])
            elif k == "assert":
                negate, op, msg, succ = t[1], self.operand(fr, t[2]), t[3], t[4]
                cond = op if not negate else z3.Not(op)
                ok, model = self.ctx.valid(cond)
                if not ok:
                    self.panics.append((msg, f"{name} {bb}", model))
                    # continue on the success side (if it is feasible at all)
                    if not self.ctx.branch(cond):
                        raise PathEnd()
                bb = succ
            elif k == "drop":
                bb = t[2]
            elif k == "call":
                dest, callee, argops, ret = t[1], t[2], t[3], t[4]
                args = [self.operand(fr, a) for a in argops]
                if re.fullmatch(r"(copy|move) _\d+", callee.strip()):
                    # an indirect call through a fn pointer held in a local
                    fp = self.operand(fr, parse_operand(callee.strip()))
                    if getattr(fp, "name", None) != "fn-item":
                        raise Unsupported(f"indirect call through {type(fp).__name__}")
                    callee = fp.fn_name
                    if callee not in self.raw and callee.split("::")[-1] in self.raw and len(self.raw[callee.split("::")[-1]]) == 1:
                        callee = callee.split("::")[-1]  # a free function is named by its last path segment in the dump
                val = self.dispatch(callee, args)
                self.place(fr, dest).set(val)
                if ret is None:
                    raise PathEnd()
                bb = ret
            else:
                raise Unsupported(f"terminator {t}")

    def complete_captures(self, fr, clos, listed):
        """rustc's MIR printer zips a closure's captured places with the *variables* it mentions, so a closure
        that captures two disjoint fields of one variable (`self.a`, `self.b`) is printed with only the first
        capture. The missing ones are the temporaries assigned right after the last listed one in the same
        block; they are only accepted when their declared types equal the field types the closure body uses."""
        try:
            body = self.get_fn(self.closure_fn(clos))
        except Unsupported:
            return
        want = {}
        for blk in body.blocks.values():
            for s in blk["stmts"] + [blk["term"]]:
                for m in re.finditer(r"\(\(\*_1\)\.(\d+): ([^()]+?)\)|\(_1\.(\d+): ([^()]+?)\)", s):
                    k = int(m.group(1) if m.group(1) is not None else m.group(3))
                    want[k] = (m.group(2) if m.group(1) is not None else m.group(4)).strip()
        for m in re.finditer(r"\(\(\*_1\)\.(\d+): ([^()]+?)\)|\(_1\.(\d+): ([^()]+?)\)", body.header):
            k = int(m.group(1) if m.group(1) is not None else m.group(3))
            want[k] = (m.group(2) if m.group(1) is not None else m.group(4)).strip()
        need = (max(want) + 1) if want else 0
        if need <= len(clos.fields):
            return
        bb, idx = fr.cur
        stmts = fr.fn.blocks[bb]["stmts"]
        last = None
        if listed:
            lm = re.findall(r"_\d+", str(listed[-1][1]))
            last = lm[0] if len(lm) == 1 else None
        start = 0
        if last is not None:
            for j in range(idx - 1, -1, -1):
                if stmts[j].startswith(last + " = "):
                    start = j + 1
                    break
            else:
                raise Unsupported(f"closure capture list of {clos.name} is truncated in the MIR dump and cannot be completed")
        k = len(clos.fields)
        for j in range(start, idx):
            am = re.match(r"^(_\d+) = ", stmts[j])
            if not am or k >= need:
                break
            loc = am.group(1)
            ty = fr.fn.locals.get(loc)
            if k in want and ty is not None and ty.replace("'_ ", "").strip() != want[k].replace("'_ ", "").strip():
                raise Unsupported(f"closure capture {k} of {clos.name}: type {ty} does not match {want[k]}")
            clos.fields.append(fr.cell(loc).v)
            k += 1
        def norm_ty(t):
            return re.sub(r"\b(?:\w+::)+", "", t.replace("'_ ", "")).strip()
        while k < need:
            # a captured parameter / earlier local: accepted only when exactly one local of the creating function
            # has the type the closure body expects for this capture
            if k not in want:
                break
            same = [loc for loc, ty in list(fr.fn.params) + list(fr.fn.locals.items())
                    if ty is not None and norm_ty(ty) == norm_ty(want[k])]
            same = sorted(set(same))
            if len(same) != 1 or fr.cells.get(same[0]) is None:
                break
            clos.fields.append(fr.cell(same[0]).v)
            k += 1
        if k < need:
            raise Unsupported(f"closure capture list of {clos.name} is truncated in the MIR dump ({k} of {need} captures found)")

    def switch(self, v, targets):
        if isinstance(v, Int):
            term = v.t
            for key, bb in targets:
                if key == "otherwise":
                    return bb
                if self.ctx.branch(term == z3.BitVecVal(int(key), term.size())):
                    return bb
            raise Unsupported("switch without otherwise fell through")
        if z3.is_bool(v):
            # bool switch: keys 0 / otherwise (or 0 / 1)
            b = self.ctx.branch(v)
            for key, bb in targets:
                if key == "otherwise":
                    return bb
                if (int(key) != 0) == b:
                    return bb
            raise Unsupported("bool switch fell through")
        raise Unsupported(f"switch on {type(v)}")

    # ---- call dispatch
    def dispatch(self, callee, args):
        callee = callee.strip()
        # items of another harper crate are printed with their full path: `harper_core::Span::with_len`
        callee = re.sub(r"\bharper_(?:core|comments)::(?:[a-z_0-9]+::)*(?=[A-Z])", "", callee)
        # inside harper-wasm, std paths are printed through wasm-bindgen's re-export of core
        callee = callee.replace("wasm_bindgen::__rt::core::", "core::").replace("wasm_bindgen::__rt::std::", "std::").replace("wasm_bindgen::__rt::alloc::", "alloc::")
        for pat, target in self.resolve_map.items():
            if re.search(pat, callee):
                if callable(target):
                    return target(self, callee, args)
                return self.call_fn(target, args)
        m0 = re.match(r"^<(.+?) as ", callee) or re.match(r"^(\w+)::", callee)
        if m0:
            base0 = re.sub(r"<.*>", "", m0.group(1)).strip().lstrip("&").replace("mut ", "").strip().split("::")[-1]
            if base0 in self.harper_types:
                r = self.try_harper_call(callee, args)
                if r is not NOTHING:
                    return r
        norm = re.sub(r"\b(?:std|core|alloc)::(?:option|vec|result|rc|sync|collections(?:::vec_deque)?|iter|ops)::", "", callee)
        for pat, model in self.models:
            m = re.search(pat, norm)
            if m:
                return model(self, norm, args, m)
        if callee in self.raw:
            return self.call_fn(callee, args)
        if strip_turbofish(callee) in self.raw and re.fullmatch(r"[\w:]+", strip_turbofish(callee)):
            return self.call_fn(strip_turbofish(callee), args)  # a generic free function: `run_on_chunk::<L>`
        cm = re.match(r"^<\{closure@[^}]*\} as ([\w:]+)(?:<.*>)?>::(\w+)$", callee)
        if cm:
            # a trait method on a closure type: the blanket impl of that trait
            trait, meth = cm.group(1).split("::")[-1], cm.group(2)
            cs = [n for n in self.raw if n.endswith("::" + meth) and "{closure" not in n and self.impl_trait(n) == trait
                  and re.fullmatch(r"[A-Z]\w?", self.impl_type(n) or "")]
            if len(cs) == 1:
                return self.call_fn(cs[0], args)
        # dynamic dispatch: `<P as Trait>::method` with a generic / impl / dyn / smart-pointer self type - decided by the
        # run-time value of the receiver (generic MIR is not monomorphised)
        dm = re.match(r"^<(dyn [\w:]+|impl [\w:]+|&?(?:mut )?[A-Z]\w?|(?:Box|Rc|Arc|std::boxed::Box|std::rc::Rc)<.*>) as ([\w:]+)(?:<.*>)?>::(\w+)(?:::<.*>)?$", callee)
        if dm and args:
            obj = args[0]
            while isinstance(obj, Ref):
                obj = obj.get()
            trait, meth = dm.group(2).split("::")[-1], dm.group(3)
            tyname, is_closure = None, False
            if isinstance(obj, Adt):
                is_closure = obj.name.startswith("{closure@")
                tyname = [x for x in re.sub(r"<.*>", "", obj.name).split("::") if x][-1]
            elif type(obj).__name__ in ("SliceRef", "VecObj"):
                tyname = "[T]"
            if tyname:
                cands = [n for n in self.raw if n.endswith("::" + meth) and "{closure" not in n and self.impl_trait(n) == trait]
                exact = [n for n in cands if self.impl_type(n) == tyname and not is_closure]
                blanket_fn = [n for n in cands if self.impl_is_blanket_for_closure(n)]
                blanket = [n for n in cands if re.fullmatch(r"[A-Z]\w?", self.impl_type(n) or "") and n not in blanket_fn]
                cs = exact or (blanket_fn if is_closure else []) or blanket
                if len(cs) == 1:
                    a0 = args[0]
                    while isinstance(a0, Ref) and isinstance(a0.get(), Ref):
                        a0 = a0.get()
                    return self.call_fn(cs[0], [a0] + list(args[1:]))
                if len(cs) > 1:
                    raise Unsupported(f"ambiguous dynamic dispatch `{callee}` on {tyname}: {cs[:3]}")
        r = self.try_harper_call(callee, args)
        if r is not NOTHING:
            return r
        raise Unsupported(f"no model for call `{callee}`")

    def impl_type(self, fn_name):
        """the Self type of the impl block a MIR item `mod::<impl at FILE:LINE:COL: ..>::name` belongs to,
        read from the source line the item name points at"""
        m = re.search(r"<impl at ([^:>]+):(\d+):\d+: ", fn_name)
        if not m:
            return None
        key = (m.group(1), int(m.group(2)))
        if key not in self.impl_cache:
            ty = None
            try:
                lines = open(os.path.join(self.repo_root, key[0])).read().split("\n")
                text = " ".join(lines[key[1] - 1:key[1] + 2])
                mm = re.match(r"\s*(?:unsafe\s+)?impl(?:<[^{]*?>)?\s+(?:(?:[\w:]+(?:<[^{]*?>)?)\s+for\s+)?(&?\[?[\w:]+\]?)", text)
                mg = re.match(r"\s*merge_linters!\s*\(\s*(\w+)\s*=>", text)
                if mg:
                    ty = mg.group(1)  # `merge_linters!(Name => A, B => "..")` generates `struct Name` and its impls
                elif mm:
                    ty = mm.group(1).split("::")[-1]
                else:
                    # derive-generated impl: the span is the derive attribute; the type is the item that follows
                    for l in lines[key[1] - 1:key[1] + 12]:
                        dm = re.match(r"\s*(?:pub(?:\([^)]*\))?\s+)?(?:enum|struct)\s+(\w+)", l)
                        if dm:
                            ty = dm.group(1)
                            break
            except OSError:
                pass
            self.impl_cache[key] = ty
        return self.impl_cache[key]

    def impl_trait(self, fn_name):
        """the trait an impl block `impl Trait for Type` implements (None for inherent impls)"""
        m = re.search(r"<impl at ([^:>]+):(\d+):\d+: ", fn_name)
        if not m:
            return None
        key = ("trait", m.group(1), int(m.group(2)))
        if key not in self.impl_cache:
            t = None
            try:
                lines = open(os.path.join(self.repo_root, m.group(1))).read().split("\n")
                text = " ".join(lines[int(m.group(2)) - 1:int(m.group(2)) + 2])
                mm = re.match(r"\s*(?:unsafe\s+)?impl(?:<[^{]*?>)?\s+([\w:]+)(?:<[^{]*?>)?\s+for\s+", text)
                if re.match(r"\s*merge_linters!\s*\(", text):
                    t = {"lint": "Linter", "description": "Linter", "default": "Default"}.get(fn_name.split("::")[-1])
                elif mm:
                    t = mm.group(1).split("::")[-1]
            except OSError:
                pass
            self.impl_cache[key] = t
        return self.impl_cache[key]

    def impl_is_blanket_for_closure(self, fn_name):
        """is this the `impl<F: Fn(..)> Trait for F` blanket impl?"""
        m = re.search(r"<impl at ([^:>]+):(\d+):\d+: ", fn_name)
        if not m:
            return False
        try:
            lines = open(os.path.join(self.repo_root, m.group(1))).read().split("\n")
        except OSError:
            return False
        text = " ".join(lines[int(m.group(2)) - 1:int(m.group(2)) + 6])
        return bool(re.search(r"F:\s*Fn\(", text))

    def try_harper_call(self, callee, args):
        # a harper function called as `Type::method` / `<T as Trait>::method`: its MIR item is named
        # `module::<impl at file:line:col: ..>::method`; resolve by method name AND the type the impl block is for
        seg = strip_turbofish(callee).split("::")[-1]
        if re.fullmatch(r"\w+", seg):
            cands = [n for n in self.raw if n.endswith("::" + seg) and "{closure" not in n]
            m2 = re.match(r"^<(.+?) as ", callee)
            ty = m2.group(1) if m2 else (re.match(r"^(\w+)::", callee) or [None, None])[1]
            if cands and ty:
                base = re.sub(r"<.*>", "", ty).strip().lstrip("&").replace("mut ", "").strip()
                exact = [n for n in cands if self.impl_type(n) == base]
                if len(exact) == 1:
                    return self.call_fn(exact[0], args)
                if len(exact) > 1:
                    raise Unsupported(f"ambiguous harper callee `{callee}`: {exact[:4]}")
                m3 = re.match(r"^<.+? as ([\w:]+)(?:<.*>)?>::", callee)
                if m3 and base in self.harper_types:
                    # no impl for the concrete harper type: a blanket impl `impl<P: ..> Trait for P` (not the one for closures)
                    trait = m3.group(1).split("::")[-1]
                    blanket = [n for n in cands if self.impl_trait(n) == trait and re.fullmatch(r"[A-Z]\w?", self.impl_type(n) or "")
                               and not self.impl_is_blanket_for_closure(n)]
                    if len(blanket) == 1:
                        return self.call_fn(blanket[0], args)
        return NOTHING

    def call_closure(self, clos, args):
        """clos: Adt named '{closure@...}' (or a ZeroSized closure marker)"""
        if getattr(clos, "name", None) == "fn-item":
            return self.dispatch(clos.fn_name, list(args))
        name = self.closure_fn(clos)
        fn = self.get_fn(name)
        first_ty = fn.params[0][1]
        cell = Cell(clos)
        selfarg = Ref(cell) if first_ty.startswith("&") else clos
        return self.call_fn(name, [selfarg] + list(args))

    # ---- statements
    def exec_stmt(self, fr, s):
        lhs, rv = parse_stmt(s)
        self.lhs_type = None
        if lhs[0] == "local":
            self.lhs_type = fr.fn.locals.get(lhs[1]) or (fr.fn.ret if lhs[1] == "_0" else None)
        val = self.rvalue(fr, rv)
        self.place(fr, lhs).set(val)

    def place(self, fr, p):
        k = p[0]
        if k == "local":
            return Ref(fr.cell(p[1]))
        if k == "deref":
            r = self.place(fr, p[1]).get()
            if not isinstance(r, Ref) and not hasattr(r, "vec"):  # SliceRef designates an unsized place
                raise Unsupported(f"deref of non-reference {type(r)}")
            return r
        if k == "field":
            base = self.place(fr, p[1])
            return Ref(base.cell, base.path + (("field", p[2]),))
        if k == "downcast":
            base = self.place(fr, p[1])
            return Ref(base.cell, base.path + (("downcast", p[2]),))
        if k == "index":
            base = self.place(fr, p[1])
            idx = fr.cell(p[2]).v
            return self.index_ref(base, idx)
        if k == "constindex":
            # slice-pattern element `[i of n]` (the MIR has already checked the length)
            base = self.place(fr, p[1])
            v = base.get()
            from models import SliceRef, VecObj
            if isinstance(v, SliceRef):
                return Ref(v.vec.elems[v.lo + p[2]])
            if isinstance(v, VecObj):
                return Ref(v.elems[p[2]])
            raise Unsupported(f"constant index into {type(v)}")
        raise Unsupported(f"place {p}")

    def index_ref(self, base, idx):
        from models import SliceRef, VecObj
        v = base.get()
        if isinstance(v, SliceRef):
            n = v.hi - v.lo
            i = self.concretise_index(idx, n)
            return Ref(v.vec.elems[v.lo + i])
        if isinstance(v, VecObj):
            i = self.concretise_index(idx, len(v.elems))
            return Ref(v.elems[i])
        raise Unsupported(f"index into {type(v)}")

    def concretise_index(self, idx, n):
        """bounds check (a possible panic) + concretisation by forking"""
        inb = z3.ULT(idx.t, z3.BitVecVal(n, idx.bits))
        ok, model = self.ctx.valid(inb)
        if not ok:
            self.panics.append(("index out of bounds", "index", model))
            if not self.ctx.branch(inb):
                raise PathEnd()
        if n == 0:
            raise PathEnd()
        return self.ctx.choose(idx.t, list(range(n)))

    def operand(self, fr, op):
        k = op[0]
        if k in ("copy", "move"):
            v = self.place(fr, op[1]).get()
            if v is None:
                raise Unsupported(f"read of uninitialised place {op[1]}")
            return copy_val(v)
        if k == "const":
            v = self.const(op[1])
            if isinstance(v, Adt) and v.name.startswith("{closure@"):
                v.origin = fr.fn.name
            return v
        raise Unsupported(f"operand {op}")

    def const(self, s):
        s = s.strip()
        if s == "true":
            return z3.BoolVal(True)
        if s == "false":
            return z3.BoolVal(False)
        m = re.fullmatch(r"(-?\d+)_(usize|u64|isize|i64|u32|i32|u8|u16|i8|i16|u128)", s)
        if m:
            ty = m.group(2)
            bits = {"usize": 64, "u64": 64, "isize": 64, "i64": 64, "u32": 32, "i32": 32, "u8": 8, "u16": 16, "i8": 8, "i16": 16,
                    "u128": 128}[ty]
            return Int(z3.BitVecVal(int(m.group(1)), bits), bits, ty.startswith("i"))
        if s.startswith("fn-item: "):
            a = Adt("fn-item", [])
            a.fn_name = s[len("fn-item: "):]
            return a
        if s.startswith("ZeroSized: "):
            ty = s[len("ZeroSized: "):]
            return Adt(ty, [])
        if s == "()":
            return ()
        bm = re.fullmatch(r'b"((?:[^"\\]|\\.)*)"', s)
        if bm:
            # a byte-string constant (e.g. a format_args! template)
            import ast
            return ast.literal_eval('b"' + bm.group(1) + '"')
        sm = re.fullmatch(r'"((?:[^"\\]|\\.)*)"', s)
        if sm:
            from models import StringObj
            txt = bytes(sm.group(1), "utf-8").decode("unicode_escape") if "\\" in sm.group(1) else sm.group(1)
            return StringObj([Int(z3.BitVecVal(ord(ch), 32), 32, False) for ch in txt])
        m = re.fullmatch(r"'(.)'", s)
        if m:
            return Int(z3.BitVecVal(ord(m.group(1)), 32), 32, False)
        m = re.fullmatch(r"'\\u\{([0-9a-fA-F]+)\}'", s)
        if m:
            return Int(z3.BitVecVal(int(m.group(1), 16), 32), 32, False)
        std_consts = {"core::f64::<impl f64>::DIGITS": (15, 32), "core::f32::<impl f32>::DIGITS": (6, 32),
                      "core::num::<impl u8>::MAX": (255, 8), "core::num::<impl u32>::MAX": (2 ** 32 - 1, 32),
                      "core::num::<impl u64>::MAX": (2 ** 64 - 1, 64), "core::num::<impl usize>::MAX": (2 ** 64 - 1, 64)}
        if s in std_consts:
            v_, b_ = std_consts[s]
            return Int(z3.BitVecVal(v_, b_), b_, False)
        esc = {"'\\n'": 10, "'\\t'": 9, "'\\r'": 13, "'\\''": 39, "'\\\\'": 92, "'\\0'": 0}
        if s in esc:
            return Int(z3.BitVecVal(esc[s], 32), 32, False)
        if re.fullmatch(r"[\w:<>, ]+::\w+", s):
            try:
                return self.make_variant(s, [])
            except Unsupported:
                pass
        if re.fullmatch(r"[\w:]+", s) and s.split("::")[-1] in self.harper_types:
            return Adt(s.split("::")[-1], [])  # a unit struct
        ci = re.fullmatch(r"(?:[\w]+::)*([A-Z][A-Z0-9_]*)", s)
        if ci and ci.group(1) in self.raw and self.raw[ci.group(1)][0][0].startswith("fn " + ci.group(1) + "() -> LocalKey<"):
            a = Adt("LocalKey", [])  # a `thread_local!` key (its const item only wraps the accessor)
            a.tl_name = ci.group(1)
            return a
        if ci and ci.group(1) in self.raw and self.raw[ci.group(1)][0][0].startswith("fn " + ci.group(1) + "() -> "):
            # a `const NAME: T = ..` item (loaded as a parameterless function); refused when the name is not unique
            if len(self.raw[ci.group(1)]) != 1:
                raise Unsupported(f"constant {s}: several items of that name")
            return self.call_fn(ci.group(1), [])
        tl = re.fullmatch(r"[\w:<>, ]+::([A-Z][A-Z0-9_]+)", s)
        if tl:
            a = Adt("LocalKey", [])
            a.tl_name = tl.group(1)
            return a
        pm0 = re.fullmatch(r"(\w+(?:::\{closure#\d+\})*)::promoted\[(\d+)\]", s)
        if pm0 and s in self.raw:
            return self.call_fn(s, [])  # a promoted constant of a free function
        pm = re.fullmatch(r"(.+?)::(\w+(?:::\{closure#\d+\})*)::promoted\[(\d+)\]", s)
        if pm:
            # a promoted constant of function <..>::name: evaluate its MIR item
            suffix = f"::{pm.group(2)}::promoted[{pm.group(3)}]"
            cands = [n for n in self.raw if n.endswith(suffix) or n == suffix[2:]]
            ty = pm.group(1).split("::")[-1]
            am = re.fullmatch(r"<(.+) as (.+)>", pm.group(1))
            if am:
                ty = re.sub(r"<.*>", "", am.group(1)).split("::")[-1]
            if len(cands) > 1:
                cands = [n for n in cands if self.impl_type(n) == ty] or cands
            if len(cands) == 1:
                return self.call_fn(cands[0], [])
            raise Unsupported(f"promoted constant {s}: {cands[:3]}")
        us = re.fullmatch(r"([\w:]+) \{\{\s*\}\}", s)
        if us and us.group(1).split("::")[-1] in self.harper_types:
            return Adt(us.group(1).split("::")[-1], [])  # a field-less struct literal `Name {{  }}`
        st = re.fullmatch(r"\{alloc\d+: &([A-Z][A-Z0-9_]*)\}", s)
        if st:
            # a reference to a `static NAME` (lazy_static! items): an opaque handle; its `Deref` must be supplied by the harness
            a = Adt(st.group(1), [])
            a.static_name = st.group(1)
            return Ref(Cell(a))
        raise Unsupported(f"constant {s}")

    def make_variant(self, name, fields):
        """`path::Enum::<generics>::Variant` (or `Enum::Variant`) -> Enum value with its declaration-order discriminant"""
        flat = re.sub(r"<[^<>]*(?:<[^<>]*(?:<[^<>]*>[^<>]*)*>[^<>]*)*>", "", name)  # drop generic args
        segs = [x for x in flat.split("::") if x]
        if len(segs) >= 2:
            en, var = segs[-2], segs[-1]
            vs = self.enums.get(en)
            if vs and var in vs:
                return Enum(var, vs.index(var), fields)
        if len(segs) == 1 and getattr(self, "lhs_type", None):
            # a bare variant name assigned to a local whose declared type names the enum
            en = re.sub(r"<.*>", "", self.lhs_type).split("::")[-1].strip()
            vs = self.enums.get(en)
            if vs and segs[0] in vs:
                return Enum(segs[0], vs.index(segs[0]), fields)
        if len(segs) == 1:
            # a bare variant name (MIR of a crate that imported the enum's variants): unique across the known enums?
            owners = [en for en, vs in self.enums.items() if vs and segs[0] in vs and en not in ("Option", "Result")]
            if len(owners) == 1 and segs[0] not in ("Some", "None", "Ok", "Err"):
                vs = self.enums[owners[0]]
                return Enum(segs[0], vs.index(segs[0]), fields)
        if segs and segs[-1] in ("Some", "None"):
            return Enum(segs[-1], 1 if segs[-1] == "Some" else 0, fields)
        if len(segs) >= 2 and segs[-2] == "Cow" and segs[-1] in ("Borrowed", "Owned"):
            return Enum(segs[-1], 0 if segs[-1] == "Borrowed" else 1, fields)
        if segs and segs[-1] in ("Ok", "Err"):
            return Enum(segs[-1], 0 if segs[-1] == "Ok" else 1, fields)
        if segs and segs[-1][:1].isupper() and fields:
            return Adt(segs[-1], fields)  # a tuple struct such as OrderedFloat(x)
        if segs and not fields and segs[-1] in self.harper_types:
            return Adt(segs[-1], [])  # a unit struct of harper (`PlainEnglish`)
        raise Unsupported(f"enum/struct constructor {name}")

    def rvalue(self, fr, rv):
        k = rv[0]
        if k == "use":
            return self.operand(fr, rv[1])
        if k == "ref":
            return self.place(fr, rv[1])
        if k == "binop":
            return self.binop(rv[1], self.operand(fr, rv[2]), self.operand(fr, rv[3]))
        if k == "unop":
            a = self.operand(fr, rv[2])
            if rv[1] == "Not":
                if isinstance(a, Int):
                    return Int(~a.t, a.bits, a.signed)
                return z3.Not(a)
            if rv[1] == "Neg":
                return Int(-a.t, a.bits, a.signed)
        if k == "ptrmeta":
            v = self.operand(fr, rv[1])
            while isinstance(v, Ref):
                v = v.get()
            if hasattr(v, "vec"):
                return Int(z3.BitVecVal(v.hi - v.lo, 64), 64, False)
            raise Unsupported(f"PtrMetadata of {type(v)}")
        if k == "len":
            v = self.place(fr, rv[1]).get()
            if hasattr(v, "vec"):
                return Int(z3.BitVecVal(v.hi - v.lo, 64), 64, False)
            raise Unsupported(f"Len of {type(v)}")
        if k == "discriminant":
            v = self.place(fr, rv[1]).get()
            if isinstance(v, Enum):
                return Int(z3.BitVecVal(v.idx, 64), 64, True)
            raise Unsupported(f"discriminant of {type(v)}")
        if k == "tuple":
            return Tup([self.operand(fr, o) for o in rv[1]])
        if k == "struct":
            a = Adt(rv[1], [self.operand(fr, o) for _, o in rv[2]])
            if rv[1].startswith("{closure@"):
                a.origin = fr.fn.name
                self.complete_captures(fr, a, rv[2])
            return a
        if k == "variant":
            name = rv[1]
            fields = [self.operand(fr, o) for o in rv[2]]
            return self.make_variant(name, fields)
        if k == "array":
            from models import VecObj
            return VecObj([self.operand(fr, o) for o in rv[1]])
        if k == "cast" and rv[3] in ("PointerCoercion", "Transmute", "PtrToPtr"):
            return self.operand(fr, rv[1])
        if k == "cast" and rv[3] in ("IntToFloat", "FloatToFloat"):
            return ("float-of", self.operand(fr, rv[1]))  # floats are opaque: carried, never inspected
        if k == "cast":
            a = self.operand(fr, rv[1])
            if rv[3] == "IntToInt" and z3.is_bool(a):
                bits = {"usize": 64, "u64": 64, "u32": 32, "u8": 8, "i32": 32, "u16": 16}.get(rv[2], 8)
                return Int(z3.If(a, z3.BitVecVal(1, bits), z3.BitVecVal(0, bits)), bits, False)
            if rv[3] == "IntToInt" and isinstance(a, Int):
                bits = {"usize": 64, "u64": 64, "isize": 64, "i64": 64, "u32": 32, "i32": 32, "u8": 8, "char": 32, "u16": 16}.get(rv[2])
                if bits is None:
                    raise Unsupported(f"cast to {rv[2]}")
                if bits == a.bits:
                    t = a.t
                elif bits < a.bits:
                    t = z3.Extract(bits - 1, 0, a.t)
                else:
                    t = z3.SignExt(bits - a.bits, a.t) if a.signed else z3.ZeroExt(bits - a.bits, a.t)
                return Int(t, bits, rv[2].startswith("i"))
            raise Unsupported(f"cast {rv}")
        raise Unsupported(f"rvalue {rv}")

    def binop(self, op, a, b):
        if isinstance(a, Int) and isinstance(b, Int):
            s = a.signed
            x, y = a.t, b.t
            if op == "Lt":
                return (x < y) if s else z3.ULT(x, y)
            if op == "Le":
                return (x <= y) if s else z3.ULE(x, y)
            if op == "Gt":
                return (x > y) if s else z3.UGT(x, y)
            if op == "Ge":
                return (x >= y) if s else z3.UGE(x, y)
            if op == "Eq":
                return x == y
            if op == "Ne":
                return x != y
            if op in ("Add", "AddUnchecked"):
                return Int(x + y, a.bits, s)
            if op in ("Sub", "SubUnchecked"):
                return Int(x - y, a.bits, s)
            if op == "Div":
                return Int((x / y) if s else z3.UDiv(x, y), a.bits, s)
            if op == "Rem":
                return Int(z3.SRem(x, y) if s else z3.URem(x, y), a.bits, s)
            if op in ("Mul", "MulUnchecked"):
                return Int(x * y, a.bits, s)
            if op == "MulWithOverflow":
                if s:
                    wide = z3.SignExt(a.bits, x) * z3.SignExt(a.bits, y)
                    r = x * y
                    return Tup([Int(r, a.bits, s), z3.SignExt(a.bits, r) != wide])
                wide = z3.ZeroExt(a.bits, x) * z3.ZeroExt(a.bits, y)
                return Tup([Int(x * y, a.bits, s), z3.Extract(2 * a.bits - 1, a.bits, wide) != 0])
            if op == "BitAnd":
                return Int(x & y, a.bits, s)
            if op == "BitOr":
                return Int(x | y, a.bits, s)
            if op == "BitXor":
                return Int(x ^ y, a.bits, s)
            if op == "AddWithOverflow":
                if s:
                    r = x + y
                    return Tup([Int(r, a.bits, s), z3.SignExt(1, r) != z3.SignExt(1, x) + z3.SignExt(1, y)])
                r = x + y
                return Tup([Int(r, a.bits, s), z3.ULT(r, x)])
            if op == "SubWithOverflow":
                if s:
                    r = x - y
                    return Tup([Int(r, a.bits, s), z3.SignExt(1, r) != z3.SignExt(1, x) - z3.SignExt(1, y)])
                return Tup([Int(x - y, a.bits, s), z3.ULT(x, y)])
            raise Unsupported(f"binop {op}")
        if z3.is_bool(a) and z3.is_bool(b):
            if op == "Eq":
                return a == b
            if op == "Ne":
                return a != b
            if op == "BitAnd":
                return z3.And(a, b)
            if op == "BitOr":
                return z3.Or(a, b)
        raise Unsupported(f"binop {op} on {type(a)}, {type(b)}")

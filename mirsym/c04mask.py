"""C04 / C01 / C02 (kernel) - `Mask`: the machinery every masked front-end (comments via tree-sitter, Literate Haskell, ...) shares.

MIR symbolic execution of `<parsers::Mask<M, P> as Parser>::parse` together with `mask::Mask::{push_allowed,
merge_whitespace_sep, iter_allowed}` on a text of T fully symbolic characters. The masker is a stub held to its contract: it
builds its mask through the real `Mask::new_blank` + `push_allowed` from K (forked 0..=Kmax) spans with symbolic bounds that are
in order and do not overlap, and (optionally) calls the real `merge_whitespace_sep`. The inner parser is a stub returning one
word token over exactly the slice it is handed, remembering where that slice lies.

On every path: no panic (the `assert!`s of `push_allowed`, `Span::new`, slice bounds); the allowed chunks after
`push_allowed` / `merge_whitespace_sep` are in order, disjoint, cover exactly the characters that were allowed plus - only when
merged - gaps consisting of whitespace only, and no whitespace-only gap between two chunks survives a merge; every word token
lies exactly on the characters the inner parser saw (true offset); a `ParagraphBreak` token covers exactly a gap between two
chunks and is there iff that gap contains a line feed; tokens are in order and inside the text.

usage: python3-vt c04mask.py <core-mir> <T> <Kmax> <merge 0|1> <repo-src-dir>
"""
import json
import os
import sys
import time
import z3
sys.path.insert(0, os.path.dirname(os.path.abspath(__file__)))
from mir import load_functions, Unsupported
from exec import Explorer, Interp, Int, Adt, Enum, Cell, Ref, BoxRef, Tup, PathEnd, Infeasible
from models import MODELS, VecObj, SliceRef, as_slice, deref
from adts import load_enums


def run(mir_path, T, K, merge, src_dir):
    raw = load_functions(mir_path)
    enums = load_enums(src_dir)
    TK = enums["TokenKind"]

    def find(prefix, suffix):
        c = [n for n in raw if n.startswith(prefix) and n.endswith(suffix) and "{closure" not in n]
        if len(c) != 1:
            raise Unsupported(f"cannot resolve {prefix}..{suffix}: {c[:3]}")
        return c[0]

    f_parse = find("parsers::mask::<impl at", ">::parse")
    f_blank, f_push, f_merge = find("mask::<impl at", ">::new_blank"), find("mask::<impl at", ">::push_allowed"), find("mask::<impl at", ">::merge_whitespace_sep")
    chars = [z3.BitVec(f"c{i}", 32) for i in range(T)]
    ks = z3.BitVec("chunks", 8)
    bs = [(z3.BitVec(f"s{i}", 64), z3.BitVec(f"e{i}", 64)) for i in range(K)]
    nice = [z3.Or(z3.And(z3.UGE(c, 97), z3.ULE(c, 122)), c == 32, c == 10) for c in chars]
    ex = Explorer()
    result = {"chars": T, "max_chunks": K, "merge": bool(merge), "violations": [], "panics": [], "functions": set()}

    def is_ws(c):
        # char::is_whitespace on the characters the models are exact for (ASCII + U+0085 / U+00A0 in Latin-1), or a line feed
        return z3.Or(c == 32, z3.And(z3.UGE(c, 9), z3.ULE(c, 13)), c == 0x85, c == 0xA0)

    def body(ctx):
        try:
            body_(ctx)
        except PathEnd:
            pass

    def body_(ctx):
        for c in chars:
            ctx.assume(z3.ULE(c, 0xFF))  # Latin-1: `char::is_whitespace` is exact there
        ctx.assume(z3.ULE(ks, K))
        k = ctx.choose(ks, list(range(K + 1)))
        prev = z3.BitVecVal(0, 64)
        for i in range(k):
            s_, e_ = bs[i]
            ctx.assume(z3.And(z3.ULE(prev, s_), z3.ULE(s_, e_), z3.ULE(e_, T)))  # the masker's contract: in order, no overlap
            prev = e_
        src = VecObj([Int(c, 32) for c in chars])
        seen = []
        state = {}

        def describe(model):
            if model is None:
                return None
            ev = lambda t: model.eval(t, model_completion=True).as_long()
            return {"text": "".join(chr(ev(c)) for c in chars), "allowed": [[ev(a), ev(b)] for a, b in bs[:k]], "merge": bool(merge)}

        def create_mask(it_, callee, args):
            m = Cell(it_.call_fn(f_blank, []))
            for i in range(k):
                it_.call_fn(f_push, [Ref(m), Adt("Span", [Int(bs[i][0]), Int(bs[i][1])])])
            state["after_push"] = [(c.v.fields[0].t, c.v.fields[1].t) for c in deref(m.v.fields[0]).elems]
            if merge:
                it_.call_fn(f_merge, [Ref(m), SliceRef(src, 0, T)])
            state["final"] = [(c.v.fields[0].t, c.v.fields[1].t) for c in deref(m.v.fields[0]).elems]
            return m.v

        def inner_parse(it_, callee, args):
            sl = as_slice(args[1])
            if sl.vec is not src:
                raise Unsupported("the inner parser was handed something that is not a slice of the text")
            seen.append((sl.lo, sl.hi))
            n = sl.hi - sl.lo
            if n == 0:
                return VecObj([])
            return VecObj([Adt("Token", [Adt("Span", [Int(0), Int(n)]), Enum("Word", TK.index("Word"), [Enum("None", 0, [])])])])

        def mask_method(it_, callee, args):
            # `mask::Mask::method` (qualified because parsers::mask::Mask is another type of the same name)
            return it_.call_fn(find("mask::<impl at", ">::" + callee.split("::")[-1]), args)

        resolve = {r"^mask::Mask::\w+$": mask_method,
                   r"^<M as (mask::)?Masker>::create_mask$": create_mask,
                   r"^<P as (parsers::)?Parser>::parse$": inner_parse}
        it = Interp(raw, MODELS, ctx, resolve, enums=enums)
        out = None
        try:
            out = it.call_fn(f_parse, [Ref(Cell(Adt("Mask", [Adt("StubMasker", []), Adt("StubParser", [])]))), SliceRef(src, 0, T)])
        except Infeasible:
            return
        finally:
            result["functions"] |= it.called
            for msg, where, model in it.panics:
                if model is not None and ctx.ex.solver.check(*nice) == z3.sat:
                    model = ctx.ex.solver.model()
                result["panics"].append({"msg": msg, "where": where, "input": describe(model)})
        if it.panics or out is None:
            return
        claims = []
        fin = state.get("final", [])
        # ---- the mask itself
        for (a, b) in fin:
            claims.append((z3.And(z3.ULE(a, b), z3.ULE(b, T)), "an allowed chunk lies outside the text"))
        for (a, b), (c_, d) in zip(fin, fin[1:]):
            claims.append((z3.ULE(b, c_), "allowed chunks overlap or are out of order"))
        for p in range(T):
            orig = z3.Or(*[z3.And(z3.ULE(s_, p), z3.ULT(z3.BitVecVal(p, 64), e_)) for s_, e_ in bs[:k]]) if k else z3.BoolVal(False)
            now = z3.Or(*[z3.And(z3.ULE(a, p), z3.ULT(z3.BitVecVal(p, 64), b)) for a, b in fin]) if fin else z3.BoolVal(False)
            claims.append((z3.Implies(orig, now), f"character {p} was allowed by the masker but is not inside any chunk"))
            claims.append((z3.Implies(z3.And(now, z3.Not(orig)), is_ws(chars[p]) if merge else z3.BoolVal(False)),
                           f"character {p} was not allowed by the masker but ended up inside a chunk" + (" although it is not whitespace" if merge else "")))
        if merge:
            for (a, b), (c_, d) in zip(fin, fin[1:]):
                gap_ws = z3.And(*[z3.Implies(z3.And(z3.ULE(b, p), z3.ULT(z3.BitVecVal(p, 64), c_)), is_ws(chars[p])) for p in range(T)])
                claims.append((z3.Not(gap_ws), "two chunks separated by whitespace only were not merged"))
        # ---- the tokens
        toks = [c.v for c in out.elems]
        words = [t for t in toks if t.fields[1].variant == "Word"]
        want = [s_ for s_ in seen if s_[1] > s_[0]]
        if len(words) != len(want):
            claims.append((z3.BoolVal(False), "a token of the inner parser was lost or invented"))
        for t, (lo, hi) in zip(words, want):
            claims.append((z3.And(t.fields[0].fields[0].t == lo, t.fields[0].fields[1].t == hi), "a token is not located at the characters the inner parser saw"))
        # the inner parser is handed exactly the chunks
        if len(seen) != len(fin):
            claims.append((z3.BoolVal(False), f"{len(seen)} slices were parsed for {len(fin)} allowed chunks"))
        else:
            for (lo, hi), (a, b) in zip(seen, fin):
                # (an empty chunk is an empty slice - where it "lies" is immaterial)
                claims.append((a == b if lo == hi else z3.And(a == lo, b == hi), "the prose parser was handed something else than an allowed chunk"))
        prev_end = None
        for t in toks:
            s_, e_ = t.fields[0].fields[0].t, t.fields[0].fields[1].t
            claims.append((z3.And(z3.ULE(s_, e_), z3.ULE(e_, T)), "a token lies outside the text"))
            if prev_end is not None:
                claims.append((z3.ULE(prev_end, s_), "tokens are out of order or overlap"))
            prev_end = e_
            if t.fields[1].variant == "ParagraphBreak":
                gaps = [z3.And(s_ == b, e_ == c_, z3.Or(*[z3.And(z3.ULE(b, p), z3.ULT(z3.BitVecVal(p, 64), c_), chars[p] == 10) for p in range(T)]))
                        for (a, b), (c_, d) in zip(fin, fin[1:])]
                claims.append((z3.Or(*gaps) if gaps else z3.BoolVal(False), "a paragraph break does not cover a gap between two chunks that contains a line feed"))
            elif t.fields[1].variant != "Word":
                claims.append((z3.BoolVal(False), f"unexpected {t.fields[1].variant} token"))
        n_breaks = sum(1 for t in toks if t.fields[1].variant == "ParagraphBreak")
        for idx, ((a, b), (c_, d)) in enumerate(zip(fin, fin[1:])):
            has_nl = z3.Or(*[z3.And(z3.ULE(b, p), z3.ULT(z3.BitVecVal(p, 64), c_), chars[p] == 10) for p in range(T)])
            present = z3.Or(*[z3.And(t.fields[0].fields[0].t == b, t.fields[0].fields[1].t == c_) for t in toks if t.fields[1].variant == "ParagraphBreak"]) \
                if n_breaks else z3.BoolVal(False)
            claims.append((z3.Implies(has_nl, present), "two chunks separated by a line break are not separated by a paragraph break token"))
        for claim, what in claims:
            ok, model = ctx.valid(claim, nice)
            if not ok:
                result["violations"].append({"what": what, "input": describe(model)})
                break

    t0 = time.time()
    ex.run(body)
    result.update(paths=ex.stats["paths"], solver_queries=ex.stats["queries"], solver_s=round(ex.stats["solver_s"], 3),
                  forks=ex.stats["forks"], wall_s=round(time.time() - t0, 2), functions=sorted(result["functions"]))
    seen_, uniq = set(), []
    for v in result["violations"]:
        if v["what"] not in seen_:
            seen_.add(v["what"])
            uniq.append(v)
    result["violations"] = uniq[:6]
    result["panics"] = result["panics"][:5]
    return result


if __name__ == "__main__":
    try:
        r = run(sys.argv[1], int(sys.argv[2]), int(sys.argv[3]), int(sys.argv[4]), sys.argv[5])
        r["status"] = "violated" if (r["violations"] or r["panics"]) else "holds"
    except Unsupported as e:
        r = {"status": "unsupported", "why": str(e)}
    print(json.dumps(r))

"""C16 (kernel) - the JavaScript-facing linter object is self-consistent.

MIR symbolic execution of harper-wasm's `Linter::lint`, `Linter::ignore_lint` and `Linter::apply_suggestion` (the Rust
methods behind the wasm-bindgen wrappers) together with the harper-core code they drive for real: `remove_overlaps`,
`IgnoredLints::{ignore_lint, remove_ignored}` + `LintContext::from_lint` + the derived `Hash` impls,
`LintGroupConfig::{clone, fill_with_curated}` (config save / restore around a lint), `Span::get_content_string`,
`Suggestion::apply`, `Lint::new`.

Stubbed: the language parser and `Document::new_from_vec` (the document is the harness's token sequence over the text:
words of two symbolic letters, spaces, periods), `<LintGroup as Linter>::lint` (reports N lints with symbolic spans inside
the text - any start <= end -, symbolic message / priority / replacement character; the same lints on every call, as a
deterministic linter does), the curated-config table (empty), `Record::now` / `RecordKind::from_lint`; `DefaultHasher` is a
collision-free recording hasher and `HashSet<u64>` a list (as in the C14 kernel).

Sequence per path: r1 = lint(text); if r1 is non-empty, ignore_lint(text, r1[j]) for a forked j, r2 = lint(text),
t = apply_suggestion(text, r1[j], its suggestion). Checked:
  * r1: every lint lies inside the text, no two lints overlap, each carries as problem text exactly the characters at its span,
    and r1 is what overlap removal leaves of the linter's lints (nothing invented); the rule configuration is the same
    after the call as before;
  * r2 = r1 without the lints that equal the ignored one (message, priority, replacement, flagged and surrounding tokens);
    the ignored lint itself is gone, a lint with another message is still there;
  * t = text[..start] + replacement + text[end..], and exactly one statistics record was added.

usage: python3-vt c16.py <core-mir> <wasm-mir> <doc shape e.g. w+s+w> <N> <repo-root>
"""
import json
import os
import re
import sys
import time
import z3
sys.path.insert(0, os.path.dirname(os.path.abspath(__file__)))
from mir import load_functions, Unsupported
from exec import Explorer, Interp, Int, Adt, Enum, Cell, Ref, BoxRef, Tup, PathEnd, Infeasible
from models import MODELS, VecObj, SliceRef, StringObj, MapObj, as_slice, deref, val_eq
from adts import load_enums, load_type_names


class SymHasher:
    heap = True

    def __init__(self):
        self.rec = []


class SetObj:
    heap = True

    def __init__(self):
        self.items = []


def run(core_mir, wasm_mir, shape, N, repo_root):
    raw = load_functions(core_mir)
    wasm = load_functions(wasm_mir)
    wasm_all = dict(wasm)
    # harper-wasm has its own `Span`, `Lint`, `Suggestion` types whose names collide with harper-core's: only the `Linter`
    # methods (and their closures) and the wasm `Lint::new` are taken from its MIR
    keep = {}
    for n, body_ in wasm.items():
        head = body_[0][0]
        if re.search(r"\(_1: &(mut )?Linter\b", head) or re.search(r"::new\(_1: harper_core::linting::Lint, ", head):
            keep[n] = body_
    blocks = {n.rsplit(">::", 1)[0] for n in keep if ">::" in n and re.search(r"\(_1: &(mut )?Linter\b", wasm[n][0][0])}
    for n, body_ in wasm.items():
        if ">::" in n and n.rsplit(">::", 1)[0] in blocks and "{closure" not in n:
            keep[n] = body_  # associated functions of the same `impl Linter` block (construct_merged_dict, ..)
    for n, body_ in wasm.items():
        base = n.split("::{closure")[0]
        if "::{closure" in n and base in keep:
            keep[n] = body_
    wasm = keep
    raw.update(wasm)
    src_core = os.path.join(repo_root, "harper-core", "src")
    enums = load_enums(src_core)
    enums.update({k: v for k, v in load_enums(os.path.join(repo_root, "harper-wasm", "src")).items() if k not in enums})
    shape = shape.split("+")
    TK, PU, LK, SG = enums["TokenKind"], enums["Punctuation"], enums["LintKind"], enums["Suggestion"]

    def wfind(suffix):
        c = [n for n in wasm if n.endswith(suffix) and "{closure" not in n and re.match(r"^fn .*" + re.escape(suffix) + r"\(_1: &mut Linter", wasm[n][0][0])]
        if len(c) != 1:
            raise Unsupported(f"cannot resolve harper-wasm Linter{suffix}: {c[:3]}")
        return c[0]

    f_lint, f_ignore, f_apply = wfind("::lint"), wfind("::ignore_lint"), wfind("::apply_suggestion")
    if shape == ["words"]:
        return run_words(raw, enums, wfind, repo_root)
    if shape == ["title"]:
        return run_title(raw, wasm_all, enums, N, repo_root)
    ex = Explorer()
    result = {"shape": shape, "lints": N, "violations": [], "panics": [], "functions": set()}

    def body(ctx):
        try:
            body_(ctx)
        except PathEnd:
            pass

    def body_(ctx):
        records, counter = [], [0]

        def rec_eq(r1, r2):
            if len(r1) != len(r2):
                return z3.BoolVal(False)
            parts = []
            for x, y in zip(r1, r2):
                if isinstance(x, (int, str)) or isinstance(y, (int, str)):
                    if not (isinstance(x, (int, str)) and isinstance(y, (int, str))) or x != y:
                        return z3.BoolVal(False)
                    continue
                if x.sort() != y.sort():
                    return z3.BoolVal(False)
                parts.append(x == y)
            return z3.And(*parts) if parts else z3.BoolVal(True)

        def h_finish(it_, callee, args):
            h = deref(args[0])
            counter[0] += 1
            t = z3.BitVec(f"hash#{counter[0]}", 64)
            for t2, r2 in records:
                ctx.assume((t == t2) == rec_eq(h.rec, r2))
            records.append((t, list(h.rec)))
            return Int(t, 64, False)

        def hash_fn_for(ty):
            c = [n for n in raw if n.endswith(">::hash") and "{closure" not in n and re.match(r"^fn .*::hash\(_1: &" + re.escape(ty) + r", _2: &mut __H\)", raw[n][0][0])]
            return c[0] if len(c) == 1 else None

        def record(it_, v, h, ty=None):
            v = deref(v)
            if isinstance(v, Int):
                h.rec.append(v.t)
            elif z3.is_bool(v):
                h.rec.append(z3.If(v, z3.BitVecVal(1, 8), z3.BitVecVal(0, 8)))
            elif isinstance(v, StringObj):
                h.rec += ["str", len(v.chars)] + [c.t for c in v.chars]
            elif isinstance(v, (VecObj, SliceRef)):
                sl = as_slice(v)
                h.rec += ["seq", len(sl)]
                f = hash_fn_for(ty) if ty else None
                for i in range(len(sl)):
                    cell = sl.vec.elems[sl.lo + i]
                    if f:
                        it_.call_fn(f, [Ref(cell), Ref(Cell(h))])
                    else:
                        record(it_, cell.v, h)
            elif isinstance(v, Enum):
                h.rec += ["variant", v.idx]
                for x in v.fields:
                    record(it_, x, h)
            elif isinstance(v, (Adt, Tup)):
                for x in (v.fields if isinstance(v, Adt) else v.items):
                    record(it_, x, h)
            else:
                raise Unsupported(f"hash of {type(v)}")

        def h_std(it_, callee, args):
            m = re.match(r"^<(?:std::vec::)?Vec<(.*)> as Hash>::hash::<", callee) or re.match(r"^<\[(.*)\] as Hash>::hash::<", callee)
            record(it_, args[0], deref(args[1]), m.group(1).split("::")[-1] if m else None)
            return ()

        def set_insert(it_, callee, args):
            s_ = deref(args[0])
            for x in s_.items:
                if val_eq(it_, x, args[1]):
                    return z3.BoolVal(False)
            s_.items.append(args[1])
            return z3.BoolVal(True)

        def set_contains(it_, callee, args):
            for x in deref(args[0]).items:
                if val_eq(it_, x, args[1]):
                    return z3.BoolVal(True)
            return z3.BoolVal(False)

        # ---- the text and its tokens
        toks, chars, spans = [], [], []
        pos = 0
        for i, k in enumerate(shape):
            if k == "w":
                cs = [z3.BitVec(f"c{i}_{j}", 32) for j in range(2)]
                for c in cs:
                    ctx.assume(z3.And(z3.UGE(c, 97), z3.ULE(c, 122)))
                kind = Enum("Word", TK.index("Word"), [Enum("None", 0, [])])
            elif k == "s":
                cs = [z3.BitVecVal(32, 32)]
                kind = Enum("Space", TK.index("Space"), [Int(1)])
            elif k == "p":
                cs = [z3.BitVecVal(46, 32)]
                kind = Enum("Punctuation", TK.index("Punctuation"), [Enum("Period", PU.index("Period"), [])])
            else:
                raise Unsupported(f"token kind {k}")
            toks.append((pos, pos + len(cs), kind))
            spans.append((pos, pos + len(cs)))
            chars.extend(cs)
            pos += len(cs)
        T = pos
        # ---- the stub linter's lints
        ls = [z3.BitVec(f"s{i}", 64) for i in range(N)]
        le = [z3.BitVec(f"e{i}", 64) for i in range(N)]
        lmsg = [z3.BitVec(f"msg{i}", 32) for i in range(N)]
        lprio = [z3.BitVec(f"prio{i}", 8) for i in range(N)]
        lrep = [z3.BitVec(f"rep{i}", 32) for i in range(N)]
        for i in range(N):
            ctx.assume(z3.And(z3.ULE(ls[i], le[i]), z3.ULE(le[i], T)))
            for c in (lmsg[i], lrep[i]):
                ctx.assume(z3.And(z3.UGE(c, 97), z3.ULE(c, 122)))
        if N == 2:
            ctx.assume(lmsg[0] != lmsg[1])  # two different lints

        def mk_lints():
            return VecObj([Adt("Lint", [Adt("Span", [Int(ls[i]), Int(le[i])]), Enum("Spelling", LK.index("Spelling"), []),
                                        VecObj([Enum("ReplaceWith", SG.index("ReplaceWith"), [VecObj([Int(lrep[i], 32)])])]),
                                        StringObj([Int(lmsg[i], 32)]), Int(lprio[i], 8)]) for i in range(N)])

        def new_doc(it_, callee, args):
            src = args[0]
            while isinstance(src, Ref) and not isinstance(src.get(), VecObj):
                src = src.get()
            v = deref(src)
            if not isinstance(v, VecObj) or len(v.elems) != T:
                raise Unsupported("Document::new_from_vec was handed something that is not the text")
            return Adt("Document", [Ref(Cell(v)), VecObj([Adt("Token", [Adt("Span", [Int(a), Int(b)]), k]) for a, b, k in toks])])

        resolve = {
            r"^<(std::hash::)?DefaultHasher as Default>::default$": lambda it_, c, a: SymHasher(),
            r"^<(std::hash::)?DefaultHasher as Hasher>::finish$": h_finish,
            r"^<(u8|u16|u32|u64|usize|i8|i16|i32|i64|isize|bool|char|(std::string::)?String|str|(std::vec::)?Vec<.*>|\[.*\]|(std::option::)?Option<.*>) as Hash>::hash::<": h_std,
            r"^<(hashbrown::)?HashSet<u64(, .*)?> as Default>::default$|^(hashbrown::)?HashSet::<u64(, .*)?>::new$": lambda it_, c, a: SetObj(),
            r"^(hashbrown::)?HashSet::<u64(, .*)?>::insert$": set_insert,
            r"^(hashbrown::)?HashSet::<u64(, .*)?>::contains::<": set_contains,
            r"^(hashbrown::)?HashSet::<u64(, .*)?>::is_empty$": lambda it_, c, a: z3.BoolVal(len(deref(a[0]).items) == 0),
            r"^Language::create_parser$": lambda it_, c, a: BoxRef(Cell(Adt("StubParser", []))),
            r"^(harper_core::)?Document::new_from_vec::<": new_doc,
            r"^<(harper_core::linting::)?LintGroup as (harper_core::linting::)?Linter>::lint$": lambda it_, c, a: mk_lints(),
            r"^(harper_stats::)?RecordKind::from_lint$": lambda it_, c, a: Adt("RecordKind", []),
            r"^(harper_stats::)?Record::now$": lambda it_, c, a: Adt("Record", [a[0]]),
            r"^(lint_group::)?curated_config$|LintGroupConfig::new_curated$": lambda it_, c, a: Adt("LintGroupConfig", [MapObj([])]),
        }
        it = Interp(raw, MODELS, ctx, resolve, enums=enums)
        it.harper_types = it.harper_types | load_type_names(os.path.join(repo_root, "harper-wasm", "src"))
        f_ign_new = [n for n in raw if n.endswith("::new") and "{closure" not in n and it.impl_type(n) == "IgnoredLints"]
        if len(f_ign_new) != 1:
            raise Unsupported("cannot resolve IgnoredLints::new")
        cfg = MapObj([])
        cfg.entries.append([StringObj([Int(ord(c), 32) for c in "RuleA"]), Cell(Enum("Some", 1, [z3.BoolVal(True)]))])
        cfg.entries.append([StringObj([Int(ord(c), 32) for c in "RuleB"]), Cell(Enum("None", 0, []))])
        group = Adt("LintGroup", [Adt("LintGroupConfig", [cfg]), ("linters",), ("pattern_linters",), ("cache",), ("hasher",)])
        stats = Adt("Stats", [VecObj([])])
        linter = Adt("Linter", [group, ("user_dictionary",), BoxRef(Cell(Adt("StubDictionary", []))), it.call_fn(f_ign_new[0], []),
                                Enum("American", 0, []), stats])
        lcell = Cell(linter)
        lang = Enum("Plain", 0, [])

        def text_arg():
            return StringObj([Int(c, 32) for c in chars])

        def describe(model, extra=None):
            if model is None:
                return None
            ev = lambda t: model.eval(t, model_completion=True).as_long()
            d = {"text": "".join(chr(ev(c)) for c in chars),
                 "linter_reports": [{"span": [ev(ls[i]), ev(le[i])], "message": chr(ev(lmsg[i])), "priority": ev(lprio[i]), "replacement": chr(ev(lrep[i]))} for i in range(N)]}
            d.update(extra or {})
            return d

        def config_snapshot():
            return [("".join(chr(z3.simplify(c.t).as_long()) for c in k.chars), v.v.variant,
                     (z3.is_true(z3.simplify(v.v.fields[0])) if v.v.variant == "Some" else None)) for k, v in deref(linter.fields[0].fields[0].fields[0]).entries]

        claims, info = [], {}
        try:
            before = config_snapshot()
            r1 = [c.v for c in it.call_fn(f_lint, [Ref(lcell), text_arg(), lang]).elems]
            after = config_snapshot()
            if before != after:
                claims.append((z3.BoolVal(False), f"lint() changed the rule configuration from {before} to {after}"))

            def parts(wl):
                inner = wl.fields[0]
                return inner.fields[0].fields[0].t, inner.fields[0].fields[1].t, inner, wl.fields[1]
            for a_ in r1:
                s_, e_, inner, ptxt = parts(a_)
                claims.append((z3.And(z3.ULE(s_, e_), z3.ULE(e_, T)), "a lint returned by lint() does not lie inside the text"))
                # problem text = the characters at the span
                conds = []
                for a in range(T + 1):
                    for b in range(a, T + 1):
                        if b - a == len(ptxt.chars):
                            conds.append(z3.And(s_ == a, e_ == b, *[ptxt.chars[q].t == chars[a + q] for q in range(b - a)]))
                claims.append((z3.Or(*conds) if conds else z3.BoolVal(False), "a lint's problem text is not the text at its span"))
                claims.append((z3.Or(*[z3.And(s_ == ls[i], e_ == le[i], inner.fields[3].chars[0].t == lmsg[i]) for i in range(N)]),
                               "lint() returned a lint the linter did not report"))
            for x in range(len(r1)):
                for y in range(x):
                    s1, e1 = parts(r1[x])[:2]
                    s2, e2 = parts(r1[y])[:2]
                    claims.append((z3.Not(z3.And(z3.ULT(s1, e2), z3.ULT(s2, e1))), "two lints returned by lint() cover a common character"))
            if len(r1) == 0 and N > 0:
                claims.append((z3.BoolVal(False), "lint() returned nothing although the linter reported lints"))
            if r1:
                jsel = z3.BitVec("ignored_index", 8)
                ctx.assume(z3.ULT(jsel, len(r1)))
                j = ctx.choose(jsel, list(range(len(r1))))
                info["ignored_index"] = j
                victim = r1[j]
                vs, ve, vinner, _ = parts(victim)
                it.call_fn(f_ignore, [Ref(lcell), text_arg(), victim])
                r2 = [c.v for c in it.call_fn(f_lint, [Ref(lcell), text_arg(), lang]).elems]
                # the ignored lint is gone
                def same_lint(x):
                    # the very same lint: span, message, priority and replacement (two lints may share span and message)
                    xi = parts(x)[2]
                    return z3.And(parts(x)[0] == vs, parts(x)[1] == ve, xi.fields[3].chars[0].t == vinner.fields[3].chars[0].t,
                                  xi.fields[4].t == vinner.fields[4].t,
                                  deref(deref(xi.fields[2]).elems[0].v.fields[0]).elems[0].v.t == deref(deref(vinner.fields[2]).elems[0].v.fields[0]).elems[0].v.t)
                claims.append((z3.Not(z3.Or(*[same_lint(x) for x in r2])) if r2 else z3.BoolVal(True), "an ignored lint is returned again by lint()"))
                # every other lint (another message) is still there
                for x in range(len(r1)):
                    if x == j:
                        continue
                    xs, xe, xinner, _ = parts(r1[x])
                    still = z3.Or(*[z3.And(parts(y)[0] == xs, parts(y)[1] == xe, parts(y)[2].fields[3].chars[0].t == xinner.fields[3].chars[0].t)
                                    for y in r2]) if r2 else z3.BoolVal(False)
                    claims.append((z3.Implies(xinner.fields[3].chars[0].t != vinner.fields[3].chars[0].t, still),
                                   "ignoring one lint removed another lint (with another message) from later results"))
                # apply its suggestion through the API
                n_before = len(stats.fields[0].elems)
                wsug = Adt("Suggestion", [deref(vinner.fields[2]).elems[0].v])
                res = it.call_fn(f_apply, [Ref(lcell), text_arg(), Ref(Cell(victim)), Ref(Cell(wsug))])
                if res.variant != "Ok":
                    claims.append((z3.BoolVal(False), "apply_suggestion failed"))
                else:
                    out = [c.t for c in res.fields[0].chars]
                    rep = deref(wsug.fields[0].fields[0]).elems[0].v.t
                    conds = []
                    for a in range(T + 1):
                        for b in range(a, T + 1):
                            want = chars[:a] + [rep] + chars[b:]
                            if len(want) == len(out):
                                conds.append(z3.And(vs == a, ve == b, *[x == y for x, y in zip(out, want)]))
                    claims.append((z3.Or(*conds) if conds else z3.BoolVal(False), "apply_suggestion did not edit exactly the lint's span"))
                if len(stats.fields[0].elems) != n_before + 1:
                    claims.append((z3.BoolVal(False), "apply_suggestion did not log exactly one statistics record"))
        except Infeasible:
            return
        finally:
            result["functions"] |= it.called
            for msg, where, model in it.panics:
                result["panics"].append({"msg": msg, "where": where, "input": describe(model)})
        if it.panics:
            return
        for claim, what in claims:
            ok, model = ctx.valid(claim)
            if not ok:
                result["violations"].append({"what": what, "input": describe(model, info)})
                break

    t0 = time.time()
    ex.run(body)
    result.update(paths=ex.stats["paths"], solver_queries=ex.stats["queries"], solver_s=round(ex.stats["solver_s"], 3),
                  forks=ex.stats["forks"], wall_s=round(time.time() - t0, 2), functions=sorted(result["functions"]))
    seen, uniq = set(), []
    for v in result["violations"]:
        if v["what"] not in seen:
            seen.add(v["what"])
            uniq.append(v)
    result["violations"] = uniq[:6]
    result["panics"] = result["panics"][:5]
    return result


def run_title(raw, wasm_all, enums, T, repo_root):
    """scenario `title`: the exported `to_title_case(text)` on a text of T characters, each a letter, a blank, a line feed or a carriage
    return (forked / symbolic); `make_title_case_str` is held to its contract (C18): a string of the same length that differs only in
    letter case. The exported function must keep that contract for the whole text: same length, differences only in letter case."""
    cands = [n for n in wasm_all if n.split("::")[-1] == "to_title_case" and "{closure" not in n and re.match(r"^fn .*to_title_case\(_1: (std::string::)?String\) -> (std::string::)?String", wasm_all[n][0][0])]
    if len(cands) != 1:
        raise Unsupported(f"cannot resolve harper-wasm to_title_case: {cands[:3]}")
    fn = cands[0]
    raw = dict(raw)
    raw[fn] = wasm_all[fn]
    for n, b in wasm_all.items():
        if n.startswith(fn + "::"):
            raw[n] = b  # closures and promoted constants of the function
    ex = Explorer()
    result = {"shape": ["title"], "chars": T, "violations": [], "panics": [], "functions": set()}
    chars = [z3.BitVec(f"c{i}", 32) for i in range(T)]

    def lower_(c):
        return z3.If(z3.And(z3.UGE(c, 65), z3.ULE(c, 90)), c + 32, c)

    def body(ctx):
        try:
            body_(ctx)
        except PathEnd:
            pass

    def body_(ctx):
        for c in chars:
            ctx.assume(z3.Or(z3.And(z3.UGE(c, 97), z3.ULE(c, 122)), z3.And(z3.UGE(c, 65), z3.ULE(c, 90)), c == 32, c == 10, c == 13))
        counter = [0]

        def title_stub(it_, callee, args):
            src = deref(args[0])
            out = []
            for c in src.chars:
                counter[0] += 1
                up = z3.Bool(f"capitalise#{counter[0]}")
                out.append(Int(z3.If(z3.And(up, z3.UGE(c.t, 97), z3.ULE(c.t, 122)), c.t - 32,
                                     z3.If(z3.And(z3.Not(up), z3.UGE(c.t, 65), z3.ULE(c.t, 90)), c.t + 32, c.t)), 32, False))
            return StringObj(out)

        resolve = {r"^(harper_core::)?make_title_case_str::<": title_stub,
                   r"^FstDictionary::curated$": lambda it_, c, a: BoxRef(Cell(Adt("StubDictionary", [])))}
        it = Interp(raw, MODELS, ctx, resolve, enums=enums)

        def describe(model):
            if model is None:
                return None
            return {"text": "".join(chr(model.eval(c, model_completion=True).as_long()) for c in chars)}
        try:
            out = it.call_fn(fn, [StringObj([Int(c, 32) for c in chars])])
        except Infeasible:
            return
        finally:
            result["functions"] |= it.called
            for msg, where, model in it.panics:
                result["panics"].append({"msg": msg, "where": where, "input": describe(model)})
        if it.panics:
            return
        got = [c.t for c in deref(out).chars]
        if len(got) != T:
            claim, what = z3.BoolVal(False), f"to_title_case returned {len(got)} characters for a text of {T}"
        else:
            claim, what = z3.And(*[lower_(x) == lower_(y) for x, y in zip(got, chars)]), "to_title_case changed more than letter case"
        ok, model = ctx.valid(claim)
        if not ok:
            result["violations"].append({"what": what, "input": describe(model)})

    t0 = time.time()
    ex.run(body)
    result.update(paths=ex.stats["paths"], solver_queries=ex.stats["queries"], solver_s=round(ex.stats["solver_s"], 3),
                  forks=ex.stats["forks"], wall_s=round(time.time() - t0, 2), functions=sorted(result["functions"]))
    seen, uniq = set(), []
    for v in result["violations"]:
        if v["what"] not in seen:
            seen.add(v["what"])
            uniq.append(v)
    result["violations"] = uniq[:6]
    return result


def run_words(raw, enums, wfind, repo_root):
    """scenario `words`: import_words / export_words / synchronize_lint_dict.
    The Linter holds explicit rule choices (RuleA on, RuleB off), an empty user dictionary and a "curated" dictionary (a real
    MutableDictionary with one word of two symbolic letters standing in for the curated word list). import_words([w]) with w two
    fully symbolic letters (both cases), then the same import again. Afterwards: export_words() returns exactly [w]; the
    dictionary snapshot used for parsing and linting contains w in exactly this spelling - also when the curated part knows the
    word in another capitalisation; the lint group was rebuilt on that snapshot; the explicit rule choices are unchanged."""
    from c15dict import is_letter, lower, seq_eq, chars_of
    f_import, f_export = wfind("::import_words"), wfind("::export_words")
    ex = Explorer()
    result = {"shape": ["words"], "violations": [], "panics": [], "functions": set()}

    def body(ctx):
        try:
            body_(ctx)
        except PathEnd:
            pass

    def body_(ctx):
        def hash_one(it_, callee, args):
            cs = chars_of(args[1])
            t = z3.BitVecVal(len(cs), 64)
            for c in cs:
                t = (t << 8) | z3.ZeroExt(32, c & 0xFF)
            return Int(t, 64, False)

        built = []

        def new_group(it_, callee, args):
            cfg_ = MapObj([(StringObj([Int(ord(c), 32) for c in "RuleA"]), Enum("None", 0, [])),
                           (StringObj([Int(ord(c), 32) for c in "RuleB"]), Enum("None", 0, []))])
            built.append(args[0])
            return Adt("LintGroup", [Adt("LintGroupConfig", [cfg_]), ("linters",), ("pattern_linters",), ("cache",), ("hasher",)])

        class H:
            heap = True

            def __init__(self):
                self.rec = []
        curated_cell = [None]
        resolve = {
            r"as BuildHasher>::hash_one::<": hash_one,
            r"as BuildHasher>::build_hasher$": lambda it_, c, a: H(),
            r"as Hasher>::write_u32$": lambda it_, c, a: deref(a[0]).rec.append(deref(a[1]).t) or (),
            r"as Hasher>::finish$": lambda it_, c, a: Int(z3.BitVec(f"dicthash{len(built)}_{id(deref(a[0])) % 9973}", 64), 64, False),
            r"^FstDictionary::curated$": lambda it_, c, a: BoxRef(curated_cell[0]),
            r"^Arc::<.*>::ptr_eq$": lambda it_, c, a: z3.BoolVal(False),
            r"^LintGroup::new_curated_empty_config::<": new_group,
            r"^<Dialect as Into<.*>>::into$|^<.* as From<Dialect>>::from$": lambda it_, c, a: a[0],
        }
        it = Interp(raw, MODELS, ctx, resolve, enums=enums)
        it.harper_types = it.harper_types | load_type_names(os.path.join(repo_root, "harper-wasm", "src"))

        def find(suffix, ty, trait=None):
            c = [n for n in raw if n.endswith(suffix) and "{closure" not in n and it.impl_type(n) == ty and (trait is None or it.impl_trait(n) == trait)]
            if len(c) != 1:
                raise Unsupported(f"cannot resolve {ty}{suffix}: {c[:3]}")
            return c[0]
        md_new = find("::new", "MutableDictionary")
        f_append = [n for n in raw if "MutableDictionary::append_word::<" in n and "{closure" not in n] or [find("::append_word", "MutableDictionary")]
        mg_new, mg_add = find("::new", "MergedDictionary"), find("::add_dictionary", "MergedDictionary")
        cw = [z3.BitVec(f"curated{i}", 32) for i in range(2)]
        w = [z3.BitVec(f"w{i}", 32) for i in range(2)]
        for c in cw + w:
            ctx.assume(is_letter(c))
        from anyval import AnyBuilder, load_structs
        structs = load_structs(os.path.join(repo_root, "harper-core", "src"))
        builder = AnyBuilder(ctx, structs, enums)
        curated = Cell(it.call_fn(md_new, []))
        it.call_fn(f_append[0], [Ref(curated), SliceRef(VecObj([Int(c, 32) for c in cw]), 0, 2), builder.any("WordMetadata", "curated-meta")])
        curated_cell[0] = curated
        user = it.call_fn(md_new, [])
        merged = Cell(it.call_fn(mg_new, []))
        it.call_fn(mg_add, [Ref(merged), BoxRef(curated)])
        it.call_fn(mg_add, [Ref(merged), BoxRef(Cell(it.call_fn(md_new, [])))])
        cfg = MapObj([(StringObj([Int(ord(c), 32) for c in "RuleA"]), Enum("Some", 1, [z3.BoolVal(True)])),
                      (StringObj([Int(ord(c), 32) for c in "RuleB"]), Enum("Some", 1, [z3.BoolVal(False)]))])
        group = Adt("LintGroup", [Adt("LintGroupConfig", [cfg]), ("linters",), ("pattern_linters",), ("cache",), ("hasher",)])
        linter = Adt("Linter", [group, user, BoxRef(merged), ("ignored",), Enum("American", 0, []), Adt("Stats", [VecObj([])])])
        lcell = Cell(linter)

        def describe(model):
            if model is None:
                return None
            ev = lambda t: chr(model.eval(t, model_completion=True).as_long())
            return {"curated_word": "".join(ev(c) for c in cw), "imported_word": "".join(ev(c) for c in w)}

        claims = []
        try:
            for _round in range(2):
                it.call_fn(f_import, [Ref(lcell), VecObj([StringObj([Int(c, 32) for c in w])])])
            exported = it.call_fn(f_export, [Ref(lcell)])
            ex_words = [[c.t for c in deref(x.v).chars] for x in exported.elems]
            claims.append((z3.BoolVal(len(ex_words) == 1) if len(ex_words) != 1 else seq_eq(ex_words[0], w), "export_words() does not return exactly the imported word"))
            snapshot = linter.fields[2]
            mdict = deref(snapshot)
            f_exact = find("::contains_exact_word", "MergedDictionary", "Dictionary")
            r = it.call_fn(f_exact, [snapshot if isinstance(snapshot, Ref) else Ref(Cell(mdict)), SliceRef(VecObj([Int(c, 32) for c in w]), 0, 2)])
            claims.append((r if z3.is_bool(r) else r.t != 0, "after import_words the dictionary used for parsing and linting does not contain the imported word"))
            if built:
                gd = built[-1]
                claims.append((z3.BoolVal(deref(gd) is mdict), "the lint group was not rebuilt on the dictionary that contains the imported word"))
            after = {"".join(chr(z3.simplify(c.t).as_long()) for c in k.chars): v.v for k, v in deref(linter.fields[0].fields[0].fields[0]).entries}
            for name, want in (("RuleA", True), ("RuleB", False)):
                v = after.get(name)
                okc = v is not None and v.variant == "Some" and z3.is_true(z3.simplify(v.fields[0] == z3.BoolVal(want)))
                claims.append((z3.BoolVal(bool(okc)), f"importing words changed the explicit choice for {name}"))
        except Infeasible:
            return
        finally:
            result["functions"] |= it.called
            for msg, where, model in it.panics:
                result["panics"].append({"msg": msg, "where": where, "input": describe(model)})
        if it.panics:
            return
        for claim, what in claims:
            ok, model = ctx.valid(claim)
            if not ok:
                result["violations"].append({"what": what, "input": describe(model)})
                break

    t0 = time.time()
    ex.run(body)
    result.update(paths=ex.stats["paths"], solver_queries=ex.stats["queries"], solver_s=round(ex.stats["solver_s"], 3),
                  forks=ex.stats["forks"], wall_s=round(time.time() - t0, 2), functions=sorted(result["functions"]))
    seen, uniq = set(), []
    for v in result["violations"]:
        if v["what"] not in seen:
            seen.add(v["what"])
            uniq.append(v)
    result["violations"] = uniq[:6]
    result["panics"] = result["panics"][:5]
    return result


if __name__ == "__main__":
    try:
        r = run(sys.argv[1], sys.argv[2], sys.argv[3], int(sys.argv[4]), sys.argv[5])
        r["status"] = "violated" if (r["violations"] or r["panics"]) else "holds"
    except Unsupported as e:
        r = {"status": "unsupported", "why": str(e)}
    print(json.dumps(r))

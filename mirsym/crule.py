"""C01 / C03 / C12 (kernel, per rule) - a real lint rule executed on every small token document.

MIR symbolic execution of `<Rule as Linter>::lint` - for pattern rules the blanket `impl<L: PatternLinter> Linter for L`,
i.e. chunk iteration, the rule's real `Pattern` object (built by the rule's real `Default::default()`; SequencePattern,
WordSet, ... dispatched dynamically) and its `match_to_lint` - on documents of N tokens that tile a text. Token kinds
are forked from a menu; the characters of words are symbolic ASCII letters; the dictionary metadata of every word is an
arbitrary `Option<WordMetadata>` whose parts are decided lazily, by forking, when the rule looks at them.

mode `safety`  : on every path the rule returns normally (no panic, no failed MIR assert) and every lint's span satisfies
                 start <= end <= text length (C01, C03).
mode `locality`: the document is P ++ paragraph break ++ D with P ending in a period; the rule is run on the whole, on P
                 (with its break) and on D alone (same token kinds, same characters and metadata, offsets rebased): the lints
                 of the whole are those of P followed by those of D shifted by the length of P and its break (C12).

usage: python3-vt crule.py <mir-dump> <Rule> <safety|locality> <N or NPxND> <word-len> <menu,comma,separated> <repo-src-dir>
"""
import json
import os
import re
import sys
import time
import z3
sys.path.insert(0, os.path.dirname(os.path.abspath(__file__)))
from mir import load_functions, Unsupported
from exec import Explorer, Interp, Int, Adt, Enum, Cell, Ref, BoxRef, Tup, PathEnd, Infeasible
from models import MODELS, VecObj, SliceRef, StringObj, as_slice, deref, sym_eq
from adts import load_enums
from anyval import AnyBuilder, load_structs, to_json

PUNCT = {"comma": ("Comma", ","), "period": ("Period", "."), "hyphen": ("Hyphen", "-"), "question": ("Question", "?"),
         "bang": ("Bang", "!"), "colon": ("Colon", ":"), "semicolon": ("Semicolon", ";"), "apostrophe": ("Apostrophe", "'"),
         "dollar": ("Currency", "$"), "ellipsis": ("Ellipsis", "…"), "openround": ("OpenRound", "("), "closeround": ("CloseRound", ")")}


def run(mir_path, rule, mode, shape, W, menu, src_dir):
    raw = load_functions(mir_path)
    enums = load_enums(src_dir)
    structs = load_structs(src_dir)
    TK, PU = enums["TokenKind"], enums["Punctuation"]
    skeleton = None
    if mode == "locality" and "|" in shape:
        # an explicit skeleton: the kinds of P (ending in its terminator) and of D are given, only characters and
        # metadata are symbolic - for rules that need a long construct before they do anything
        ps, ds = shape.split("|")
        skeleton = ps.split("+") + ["pbreak"] + ds.split("+")
        nP, nD = len(ps.split("+")), len(ds.split("+"))
        N = len(skeleton)
    elif mode == "locality":
        nP, nD = (int(x) for x in shape.split("x"))
        N = nP + 1 + nD
    elif "+" in shape:
        skeleton = shape.split("+")  # safety on one explicit sequence of kinds (characters and metadata symbolic)
        N = len(skeleton)
        nP = nD = None
    else:
        N = int(shape)
        nP = nD = None
    sel = [z3.BitVec(f"k{i}", 8) for i in range(N)]
    ex = Explorer()
    result = {"rule": rule, "mode": mode, "tokens": N, "word_len": W, "menu": menu, "violations": [], "panics": [], "functions": set()}

    def body(ctx):
        try:
            body_(ctx)
        except PathEnd:
            pass

    def body_(ctx):
        builder = AnyBuilder(ctx, structs, enums)

        def curated_document(it_, callee, args):
            """Document::new_*_curated(text) inside a rule's constructor (ExactPhrase::from_phrase, ..): the concrete phrase is
            lexed and parsed by the real PlainEnglish parser and Document::parse from MIR, with a dictionary that knows no
            word (for plain phrases the Markdown parser yields the same tokens; pulldown-cmark cannot be executed)"""
            text = deref(args[0])
            if not isinstance(text, StringObj):
                raise Unsupported("curated document of a non-literal text")
            nf = [n for n in raw if n.endswith(">::new_from_vec") and n.startswith("document::<impl")]
            if len(nf) != 1:
                raise Unsupported("cannot resolve Document::new_from_vec")
            src = VecObj([Int(c.t, 32, False) for c in text.chars])
            return it_.call_fn(nf[0], [BoxRef(Cell(src)), Ref(Cell(Adt("PlainEnglish", []))), Ref(Cell(Adt("StubDictionary", [])))])

        def any_metadata(it_, callee, args):
            md = builder.any("Option<WordMetadata>", "dictionary-answer")
            if md.variant == "None":
                return Enum("None", 0, [])
            return Enum("Some", 1, [Ref(Cell(md.fields[0]))])

        def english_lingual(it_, callee, args):
            # CharExt::is_english_lingual goes through Unicode tables of four crates; exact for ASCII, arbitrary otherwise
            c = deref(args[0])
            return z3.If(z3.ULE(c.t, 0x7F), z3.Or(z3.And(z3.UGE(c.t, 65), z3.ULE(c.t, 90)), z3.And(z3.UGE(c.t, 97), z3.ULE(c.t, 122))),
                         z3.Bool(builder.fresh("is_english_lingual")))

        resolve = {
            r"^<char as (char_ext::)?CharExt>::is_english_lingual$": english_lingual,
            r"^Document::new_(markdown_default|plain_english|markdown)_curated$": curated_document,
            r"^FstDictionary::curated$": lambda it_, c, a: BoxRef(Cell(Adt("StubDictionary", []))),
            r" as Dictionary>::get_word_metadata(_str)?$": any_metadata,
            r" as Dictionary>::contains_(exact_)?word(_str)?$": lambda it_, c, a: z3.Bool(builder.fresh("dictionary-contains")),
            r" as Dictionary>::get_correct_capitalization_of$": lambda it_, c, a: __import__("models").m_correct_capitalization(it_, c, a, None),
        }
        it = Interp(raw, MODELS, ctx, resolve, enums=enums)
        # ---- the rule object, built by its own constructor
        lint_fns = [n for n in raw if n.endswith("::lint") and "{closure" not in n and it.impl_type(n) == rule and it.impl_trait(n) == "Linter"]
        pattern_rule = False
        if not lint_fns:
            if [n for n in raw if n.endswith("::match_to_lint") and it.impl_type(n) == rule and it.impl_trait(n) == "PatternLinter"]:
                lint_fns = [n for n in raw if n.endswith("::lint") and "{closure" not in n and it.impl_trait(n) == "Linter"
                            and n.startswith("pattern_linter::<impl at ")]
                pattern_rule = True
        if not lint_fns:
            # impl generated by a macro (merge_linters!): identify it by its receiver type
            lint_fns = [n for n in raw if n.endswith("::lint") and "{closure" not in n
                        and re.match(r"^fn .*::lint\(_1: &mut " + re.escape(rule) + r", _2: &Document\)", raw[n][0][0])]
        if len(lint_fns) != 1:
            raise Unsupported(f"cannot resolve <{rule} as Linter>::lint: {lint_fns[:3]}")
        ctor = [n for n in raw if n.endswith("::default") and it.impl_type(n) == rule]
        if not ctor:
            ctor = [n for n in raw if n.endswith("::default") and re.match(r"^fn .*::default\(\) -> " + re.escape(rule) + r" \{$", raw[n][0][0])]
        if len(ctor) != 1:
            raise Unsupported(f"{rule} has no unique Default::default: {ctor[:3]}")
        obj = it.call_fn(ctor[0], [])
        # ---- the document
        kinds, toks, chars, meta_tags = [], [], [], []
        nice = []
        pos = 0
        for i in range(N):
            if skeleton is not None:
                which = skeleton[i]
            elif mode == "locality" and i == nP - 1:
                which = "period"
            elif mode == "locality" and i == nP:
                which = "pbreak"
            else:
                ctx.assume(z3.ULT(sel[i], len(menu)))
                which = menu[ctx.choose(sel[i], list(range(len(menu))))]
            wl = W
            wm = re.fullmatch(r"word(\d+)", which)
            if wm:
                which, wl = "word", int(wm.group(1))
            blank = {"space", "tab"}
            if kinds and (which == kinds[-1] and which in ("word", "space", "newline", "number", "tab") or (which in blank and kinds[-1] in blank)):
                raise PathEnd()  # maximal munch of the lexers / condense_spaces: no two adjacent words / blank runs
            kinds.append(which)
            if which == "word":
                cs = [z3.BitVec(f"c{i}_{j}", 32) for j in range(wl)]
                for c in cs:
                    ctx.assume(z3.Or(z3.And(z3.UGE(c, 65), z3.ULE(c, 90)), z3.And(z3.UGE(c, 97), z3.ULE(c, 122))))
                    nice.append(z3.And(z3.UGE(c, 97), z3.ULE(c, 122)))
                md = builder.any("Option<WordMetadata>", f"word{i}")
                kind = Enum("Word", TK.index("Word"), [md])
            elif which == "space":
                cs = [z3.BitVecVal(32, 32)]
                kind = Enum("Space", TK.index("Space"), [Int(z3.BitVecVal(1, 64))])
            elif which == "tab":
                # a tab is lexed as Space(2): the blank count of a space token is not its width in characters
                cs = [z3.BitVecVal(9, 32)]
                kind = Enum("Space", TK.index("Space"), [Int(z3.BitVecVal(2, 64))])
            elif which == "newline":
                cs = [z3.BitVecVal(10, 32)]
                kind = Enum("Newline", TK.index("Newline"), [Int(z3.BitVecVal(1, 64))])
            elif which == "pbreak":
                cs = [z3.BitVecVal(10, 32), z3.BitVecVal(10, 32)]
                kind = Enum("ParagraphBreak", TK.index("ParagraphBreak"), [])
            elif which == "number":
                cs = [z3.BitVec(f"c{i}_{j}", 32) for j in range(W)]
                for c in cs:
                    ctx.assume(z3.And(z3.UGE(c, 48), z3.ULE(c, 57)))
                kind = Enum("Number", TK.index("Number"), [Adt("Number", ["f64-value", Enum("None", 0, []), Int(z3.BitVecVal(10, 32), 32, False),
                                                                          Int(z3.BitVecVal(0, 64))])])
            elif which in PUNCT:
                var, ch = PUNCT[which]
                cs = [z3.BitVecVal(ord(ch), 32)]
                kind = Enum("Punctuation", TK.index("Punctuation"), [Enum(var, PU.index(var), [])])
            else:
                raise Unsupported(f"menu entry {which}")
            toks.append((pos, pos + len(cs), kind))
            chars.extend(cs)
            pos += len(cs)
        L = pos

        def mk_doc(lo, hi):
            """the document made of tokens lo..hi, offsets rebased to its first character"""
            base = toks[lo][0] if lo < hi else 0
            end = toks[hi - 1][1] if lo < hi else 0
            src = VecObj([Int(c, 32) for c in chars[base:end]])
            tv = VecObj([Adt("Token", [Adt("Span", [Int(z3.BitVecVal(s - base, 64)), Int(z3.BitVecVal(e - base, 64))]), k]) for s, e, k in toks[lo:hi]])
            return Adt("Document", [Ref(Cell(src)), tv]), end - base

        def lint(doc):
            out = it.call_fn(lint_fns[0], [Ref(Cell(obj)), Ref(Cell(doc))])
            return [c.v for c in out.elems]

        def describe(model):
            if model is None:
                return None
            txt = "".join(chr(model.eval(c, model_completion=True).as_long()) for c in chars)
            words = []
            for (s_, e_, k), kn in zip(toks, kinds):
                if kn == "word":
                    words.append([txt[s_:e_], to_json(k.fields[0], model, structs)])
            d = {"kinds": kinds, "text": txt, "words": words, "rule": rule}
            if mode == "locality":
                d["split"] = toks[nP][1]
            return d

        runs = []
        try:
            if mode == "safety":
                d, ln = mk_doc(0, N)
                runs.append((lint(d), ln))
            else:
                whole, ln = mk_doc(0, N)
                runs.append((lint(whole), ln))
                p, lp = mk_doc(0, nP + 1)
                runs.append((lint(p), lp))
                dd, ld = mk_doc(nP + 1, N)
                runs.append((lint(dd), ld))
        except (PathEnd, Infeasible):
            pass
        result["functions"] |= it.called
        for msg, where, model in it.panics:
            if model is not None and ctx.ex.solver.check(*nice) == z3.sat:
                model = ctx.ex.solver.model()
            result["panics"].append({"msg": msg, "where": where, "input": describe(model)})
        if it.panics or len(runs) != (1 if mode == "safety" else 3):
            return
        claims = []
        for lints, ln in runs:
            for l in lints:
                s_, e_ = l.fields[0].fields[0].t, l.fields[0].fields[1].t
                claims.append((z3.And(z3.ULE(s_, e_), z3.ULE(e_, ln)), "a lint's span does not lie inside the text"))
        if mode == "locality":
            (lw, _), (lp_, lenp), (ld_, _) = runs
            if len(lw) != len(lp_) + len(ld_):
                claims.append((z3.BoolVal(False), f"the whole text gives {len(lw)} lints, the paragraph {len(lp_)} and the rest {len(ld_)}"))
            else:
                for a, b, shift in [(x, y, 0) for x, y in zip(lw, lp_)] + [(x, y, lenp) for x, y in zip(lw[len(lp_):], ld_)]:
                    same = [a.fields[0].fields[0].t == b.fields[0].fields[0].t + shift, a.fields[0].fields[1].t == b.fields[0].fields[1].t + shift]
                    if a.fields[1].variant != b.fields[1].variant:
                        same.append(z3.BoolVal(False))
                    same.append(a.fields[4].t == b.fields[4].t)
                    sa, sb = as_slice(a.fields[2]), as_slice(b.fields[2])
                    if len(sa) != len(sb):
                        same.append(z3.BoolVal(False))
                    else:
                        for j in range(len(sa)):
                            x, y = sa.vec.elems[sa.lo + j].v, sb.vec.elems[sb.lo + j].v
                            if x.variant != y.variant:
                                same.append(z3.BoolVal(False))
                            elif x.fields and isinstance(deref(x.fields[0]), (VecObj, SliceRef)):
                                xa, ya = as_slice(x.fields[0]), as_slice(y.fields[0])
                                if len(xa) != len(ya):
                                    same.append(z3.BoolVal(False))
                                else:
                                    same += [xa.vec.elems[xa.lo + q].v.t == ya.vec.elems[ya.lo + q].v.t for q in range(len(xa))]
                    claims.append((z3.And(*same), "a lint of the whole text differs from the lint of its paragraph checked alone"))
        for claim, what in claims:
            ok, model = ctx.valid(claim, nice)
            if not ok:
                result["violations"].append({"what": what, "input": describe(model)})
                break

    t0 = time.time()
    ex.run(body)
    result.update(paths=ex.stats["paths"], solver_queries=ex.stats["queries"], solver_s=round(ex.stats["solver_s"], 3),
                  forks=ex.stats["forks"], wall_s=round(time.time() - t0, 2), functions=sorted(result["functions"]))
    result["violations"] = result["violations"][:5]
    result["panics"] = result["panics"][:5]
    return result


if __name__ == "__main__":
    try:
        r = run(sys.argv[1], sys.argv[2], sys.argv[3], sys.argv[4], int(sys.argv[5]), sys.argv[6].split(","), sys.argv[7])
        r["status"] = "violated" if (r["violations"] or r["panics"]) else "holds"
    except Unsupported as e:
        r = {"status": "unsupported", "why": str(e), "rule": sys.argv[2]}
    print(json.dumps(r))

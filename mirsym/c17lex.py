"""C17 / C02 (kernel) - `lex_number` takes the whole run of decimal digits, however long.

MIR symbolic execution of `lexing::lex_number` on D fully symbolic decimal digits followed by two symbolic letters of the
ordinal suffixes (s t n d r h, either case) and one arbitrary further character. The number token must cover exactly
the D digits - so that the suffix rule judges the number that was written, not a prefix or suffix of it. `str::parse::<f64>`
is the grammar model of models.py (which strings parse; the value stays opaque).

usage: python3-vt c17lex.py <mir-dump> <D> <repo-src-dir>
"""
import json
import os
import sys
import time
import z3
sys.path.insert(0, os.path.dirname(os.path.abspath(__file__)))
from mir import load_functions, Unsupported
from exec import Explorer, Interp, Int, Adt, Enum, Cell, Ref, Tup, PathEnd, Infeasible
from models import MODELS, VecObj, SliceRef
from adts import load_enums


def run(mir_path, D, src_dir):
    raw = load_functions(mir_path)
    enums = load_enums(src_dir)
    cands = [n for n in raw if (n == "lex_number" or n.endswith("::lex_number")) and "{closure" not in n]
    if len(cands) != 1:
        raise Unsupported(f"cannot resolve lex_number: {cands}")
    digits = [z3.BitVec(f"d{i}", 32) for i in range(D)]
    sfx = [z3.BitVec(f"s{i}", 32) for i in range(2)]
    last = z3.BitVec("last", 32)
    ex = Explorer()
    result = {"digits": D, "violations": [], "panics": [], "functions": set()}

    def text(model):
        return "".join(chr(model.eval(c, model_completion=True).as_long()) for c in digits + sfx + [last])

    def body(ctx):
        for c in digits:
            ctx.assume(z3.And(z3.UGE(c, 48), z3.ULE(c, 57)))
        for c in sfx:
            ctx.assume(z3.Or(*[c == ord(x) for x in "stndrhSTNDRH"]))
        ctx.assume(z3.And(z3.ULE(last, 0x10FFFF), z3.Or(z3.ULT(last, 0xD800), z3.UGT(last, 0xDFFF))))
        vec = VecObj([Int(c, 32) for c in digits + sfx + [last]])
        it = Interp(raw, MODELS, ctx, {}, enums=enums)
        out = None
        try:
            out = it.call_fn(cands[0], [SliceRef(vec, 0, D + 3)])
        except (PathEnd, Infeasible):
            pass
        result["functions"] |= it.called
        nice = [z3.And(z3.UGE(last, 32), z3.ULE(last, 126))]
        for msg, where, model in it.panics:
            result["panics"].append({"msg": msg, "where": where, "text": text(model) if model is not None else None})
        if out is None:
            return
        if out.variant != "Some":
            ok, model = ctx.valid(z3.BoolVal(False), nice)
            result["violations"].append({"what": "a run of digits is not lexed as a number", "text": text(model)})
            return
        ni = out.fields[0].fields[0]
        ok, model = ctx.valid(ni.t == D, nice)
        if not ok:
            result["violations"].append({"what": f"the number token does not cover exactly the {D} digits", "text": text(model)})

    t0 = time.time()
    ex.run(body)
    result.update(paths=ex.stats["paths"], solver_queries=ex.stats["queries"], solver_s=round(ex.stats["solver_s"], 3),
                  forks=ex.stats["forks"], wall_s=round(time.time() - t0, 2), functions=sorted(result["functions"]))
    result["violations"] = result["violations"][:5]
    result["panics"] = result["panics"][:5]
    return result


if __name__ == "__main__":
    try:
        r = run(sys.argv[1], int(sys.argv[2]), sys.argv[3])
        r["status"] = "violated" if (r["violations"] or r["panics"]) else "holds"
    except Unsupported as e:
        r = {"status": "unsupported", "why": str(e)}
    print(json.dumps(r))

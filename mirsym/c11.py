"""C11 (kernel) - LintGroupConfig: rule switches do what they say.

MIR symbolic execution of the real LintGroupConfig::{is_rule_enabled, set_rule_enabled, unset_rule_enabled,
set_rule_enabled_if_unset, clear, merge_from, fill_with_curated} and of `impl Hash for LintGroupConfig` on
configurations over the keys {"A", "B"} (each absent / None / Some(false) / Some(true), forked) plus the unknown key "Z".
BTreeMap<String, Option<bool>> is modelled as an ordered association list; the hasher records what is written to it.

usage: python3-vt c11.py <mir-dump> <scenario> <repo-src-dir>   scenario: query | set | merge | fill | hash
"""
import json
import os
import sys
import time
import z3
sys.path.insert(0, os.path.dirname(os.path.abspath(__file__)))
from mir import load_functions, Unsupported
from exec import Explorer, Interp, Int, Adt, Enum, Cell, Ref, Tup, PathEnd, Infeasible
from models import MODELS, MapObj, StringObj, RecorderHasher, deref
from adts import load_enums

KEYS = ["A", "B"]
STATES = ["absent", "none", "false", "true"]


def sobj(s):
    return StringObj([Int(ord(c), 32) for c in s])


def find_fn(raw, name):
    c = [n for n in raw if n.endswith("::" + name) and "lint_group::<impl at" in n and "{closure" not in n]
    if len(c) != 1:
        raise Unsupported(f"cannot uniquely resolve LintGroupConfig::{name}: {c}")
    return c[0]


def run(mir_path, scenario, src_dir):
    raw = load_functions(mir_path)
    enums = load_enums(src_dir)
    # the inherent impl of LintGroupConfig and its Hash impl
    def cfg_fn(name):
        c = [n for n in raw if n.endswith("::" + name) and "lint_group::<impl at" in n and "{closure" not in n]
        c = [n for n in c if Interp(raw, MODELS, None, {}, enums=enums).impl_type(n) == "LintGroupConfig"]
        if len(c) != 1:
            raise Unsupported(f"cannot uniquely resolve LintGroupConfig::{name}: {c}")
        return c[0]
    ex = Explorer()
    result = {"scenario": scenario, "violations": [], "panics": [], "functions": set()}
    nconf = {"query": 1, "set": 1, "merge": 2, "fill": 2, "hash": 2}[scenario]
    sels = [[z3.BitVec(f"cfg{c}_{k}", 8) for k in KEYS] for c in range(nconf)]
    extra = z3.BitVec("which", 8)
    val = z3.Bool("value")

    def body(ctx):
        it = Interp(raw, MODELS, ctx, {}, enums=enums)
        states = []
        cfgs = []
        for c in range(nconf):
            st = {}
            entries = []
            for ki, k in enumerate(KEYS):
                ctx.assume(z3.ULT(sels[c][ki], 4))
                s_ = STATES[ctx.choose(sels[c][ki], [0, 1, 2, 3])]
                st[k] = s_
                if s_ == "none":
                    entries.append((sobj(k), Enum("None", 0, [])))
                elif s_ != "absent":
                    entries.append((sobj(k), Enum("Some", 1, [z3.BoolVal(s_ == "true")])))
            states.append(st)
            cfgs.append(Adt("LintGroupConfig", [MapObj(entries)]))

        def enabled_model(st, k):
            return st.get(k) == "true"

        def enabled_real(cfg, k):
            r = it.call_fn(cfg_fn("is_rule_enabled"), [Ref(Cell(cfg)), sobj(k)])
            return ctx.branch(r)

        def state_of(cfg):
            out = {}
            for k, c in cfg.fields[0].entries:
                ks = "".join(chr(z3.simplify(ch.t).as_long()) for ch in k.chars)
                v = c.v
                out[ks] = "none" if v.variant == "None" else ("true" if ctx.branch(v.fields[0]) else "false")
            return out

        def bad(what, **kw):
            result["violations"].append({"what": what, "configs": states, **kw})

        try:
            if scenario == "query":
                for k in KEYS + ["Z"]:
                    if enabled_real(cfgs[0], k) != enabled_model(states[0], k):
                        return bad(f"is_rule_enabled({k!r}) is wrong", key=k)
            elif scenario == "set":
                ctx.assume(z3.ULT(extra, 3))
                k = (KEYS + ["Z"])[ctx.choose(extra, [0, 1, 2])]
                v = ctx.branch(val)
                it.call_fn(cfg_fn("set_rule_enabled"), [Ref(Cell(cfgs[0])), sobj(k), z3.BoolVal(v)])
                after = state_of(cfgs[0])
                want = dict(states[0])
                want[k] = "true" if v else "false"
                want = {a: b for a, b in want.items() if b != "absent"}
                if after != want:
                    return bad(f"set_rule_enabled({k!r}, {v}) left the configuration as {after}", key=k)
                it.call_fn(cfg_fn("unset_rule_enabled"), [Ref(Cell(cfgs[0])), sobj(k)])
                if k in state_of(cfgs[0]) or enabled_real(cfgs[0], k):
                    return bad(f"unset_rule_enabled({k!r}) did not remove the rule's setting", key=k)
            elif scenario == "merge":
                it.call_fn(cfg_fn("merge_from"), [Ref(Cell(cfgs[0])), Ref(Cell(cfgs[1]))])
                a, b = state_of(cfgs[0]), state_of(cfgs[1])
                for k in KEYS:
                    sb, sa = states[1][k], states[0][k]
                    want = sb if sb in ("true", "false") else sa
                    got = a.get(k, "absent")
                    if got != want:
                        return bad(f"after merge_from, rule {k!r} is {got}, expected {want} (explicit choices of the overlaid configuration win, everything else is kept)", key=k)
                    if b.get(k, "absent") in ("true", "false"):
                        return bad("merge_from did not empty the other configuration", key=k)
            elif scenario == "fill":
                # cfgs[0] = the user's configuration, cfgs[1] = the curated defaults
                curated = cfgs[1]
                from models import deep_clone
                it.resolve_map[r"^LintGroupConfig::new_curated$"] = lambda it_, c, a: deep_clone(curated)
                cell0 = Cell(cfgs[0])
                it.call_fn(cfg_fn("fill_with_curated"), [Ref(cell0)])
                a = state_of(cell0.v)
                for k in KEYS:
                    su, sc = states[0][k], states[1][k]
                    want = su if su in ("true", "false") else sc
                    got = a.get(k, "absent")
                    if (got == "true") != (want == "true") or (su in ("true", "false") and got != su):
                        return bad(f"after fill_with_curated, rule {k!r} is {got}: the user's {su} over the curated {sc} should give {want}", key=k)
            elif scenario == "hash":
                recs = []
                for c in cfgs:
                    h = RecorderHasher()
                    hfn = [n for n in raw if n.endswith("::hash") and "lint_group::<impl at" in n and it.impl_trait(n) == "Hash"
                           and it.impl_type(n) == "LintGroupConfig"]
                    if len(hfn) != 1:
                        raise Unsupported(f"Hash impl of LintGroupConfig not found: {hfn}")
                    it.call_fn(hfn[0], [Ref(Cell(c)), Ref(Cell(h))])
                    recs.append(tuple(h.rec))
                if recs[0] == recs[1]:
                    for k in KEYS:
                        if enabled_model(states[0], k) != enabled_model(states[1], k):
                            return bad(f"two configurations that differ in whether rule {k!r} is on hash identically (the clause cache would mix them up)", key=k)
        except (PathEnd, Infeasible):
            pass
        finally:
            result["functions"] |= it.called
            for msg, where, model in it.panics:
                result["panics"].append({"msg": msg, "where": where, "configs": states})

    t0 = time.time()
    ex.run(body)
    result.update(paths=ex.stats["paths"], solver_queries=ex.stats["queries"], solver_s=round(ex.stats["solver_s"], 3),
                  forks=ex.stats["forks"], wall_s=round(time.time() - t0, 2), functions=sorted(result["functions"]))
    result["violations"] = result["violations"][:5]
    result["panics"] = result["panics"][:5]
    return result


if __name__ == "__main__":
    try:
        r = run(sys.argv[1], sys.argv[2], sys.argv[3])
        r["status"] = "violated" if (r["violations"] or r["panics"]) else "holds"
    except Unsupported as e:
        r = {"status": "unsupported", "why": str(e)}
    print(json.dumps(r))

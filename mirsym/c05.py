"""Kernel of C05 / C03 / C11 / C12 - LintGroup::lint's clause cache and rule gate are unobservable.

Symbolic execution of the real MIR of `<LintGroup as Linter>::lint` (with iter_chunks, TokenStringExt::span,
Document::get_span_content, Span::pull_by/push_by ...) on a LintGroup that holds two *stub* pattern rules, an
association-list model of the LRU cache and a config-determined hash. Documents consist of one-char tokens whose
kind is determined by the character ('.' period, ',' comma, ' ' space, anything else a word), so everything a
rule may depend on is a function of the clause text - the premise of the cache. Rule Q flags every word token
whose character is 'q'; rule W flags the first word token of the clause. On every path the lints returned by
each call must equal what the enabled rules produce on that document from scratch - same order, same spans -
whatever was linted before and however the configuration was toggled in between.

usage: python3-vt c05.py <mir-dump> <scenario> <repo-src-dir>     scenario: one:<L> | two:<LA>:<LB>
"""
import json
import os
import sys
import time
import z3
sys.path.insert(0, os.path.dirname(os.path.abspath(__file__)))
from mir import load_functions, Unsupported
from exec import Explorer, Interp, Int, Adt, Enum, Cell, Ref, Tup, PathEnd, Infeasible
from models import MODELS, VecObj, SliceRef, MapObj, LruObj, StringObj, as_slice, deref
from adts import load_enums


def find_fn(raw, suffix, contains):
    c = [n for n in raw if n.endswith(suffix) and contains in n and "{closure" not in n]
    if len(c) != 1:
        raise Unsupported(f"cannot uniquely resolve MIR function *{suffix} ({contains}): {c}")
    return c[0]


def run(mir_path, scenario, src_dir):
    raw = load_functions(mir_path)
    enums = load_enums(src_dir)
    f_lint = find_fn(raw, ">::lint", "lint_group")
    parts = scenario.split(":")
    lens = [int(x) for x in parts[1:]]
    ncalls = len(lens)
    two = parts[0] == "two"
    many = parts[0] == "many"
    RULES = ("Q", "W")
    if many:
        # `many:<n>:<L1>:<L2>`: n pattern rules R000.. of which only the first and the 65th can be switched (all others are off), two
        # calls with independent configurations: a cache key that stops telling rules apart beyond a machine word shows here
        nrules, lens = lens[0], lens[1:]
        ncalls = len(lens)
        RULES = tuple(f"R{i:03d}" for i in range(nrules))
        SWITCHABLE = (RULES[0], RULES[64]) if nrules > 64 else (RULES[0], RULES[-1])
    chars = [[z3.BitVec(f"d{d}c{i}", 32) for i in range(L)] for d, L in enumerate(lens)]
    enabled = [{k: (z3.Bool(f"call{d}_{k}_enabled") if (not many or k in SWITCHABLE) else z3.BoolVal(False)) for k in RULES} for d in range(ncalls)]
    ex = Explorer()
    result = {"scenario": scenario, "violations": [], "panics": [], "functions": set()}
    TK, PU = enums["TokenKind"], enums["Punctuation"]

    def describe(model):
        if model is None:
            return None
        docs = ["".join(chr(min(model.eval(c, model_completion=True).as_long(), 0x10FFFF)) if 32 <= model.eval(c, model_completion=True).as_long() < 127 else "w"
                        for c in cs) for cs in chars]
        cfg = [{k: bool(model.eval(b, model_completion=True)) for k, b in en.items() if not many or k in SWITCHABLE} for en in enabled]
        return {"documents": docs, "enabled_per_call": cfg}

    def body(ctx):
        # configurations explored: a single call runs under every configuration of the two rules; in the
        # two-call scenario the first call has both rules on and the second toggles rule Q (W stays on)
        if two:
            ctx.assume(z3.And(enabled[0]["Q"], enabled[0]["W"], enabled[1]["W"]))
        state = {"call": 0}
        docs = []
        kinds_all = []
        for d, L in enumerate(lens):
            kinds, toks = [], []
            for i in range(L):
                c = chars[d][i]
                # printable ASCII: there the harness's token kinds ('.', ',', blank, else word) agree with what the lexer would produce
                # (a tab or U+00A0 classed as a *word* is a document no parser yields)
                ctx.assume(z3.And(z3.UGE(c, 32), z3.ULE(c, 126)))
                if many and i == L - 1:
                    ctx.assume(c == 46)  # the document is one clause ending in a period
                if ctx.branch(c == 46):
                    kinds.append("period")
                    k = Enum("Punctuation", TK.index("Punctuation"), [Enum("Period", PU.index("Period"), [])])
                elif (not two) and ctx.branch(c == 44):
                    kinds.append("comma")
                    k = Enum("Punctuation", TK.index("Punctuation"), [Enum("Comma", PU.index("Comma"), [])])
                elif ctx.branch(c == 32):
                    kinds.append("space")
                    k = Enum("Space", TK.index("Space"), [Int(1)])
                else:
                    kinds.append("word")
                    k = Enum("Word", TK.index("Word"), [Enum("None", 0, [])])
                toks.append(Adt("Token", [Adt("Span", [Int(i), Int(i + 1)]), k]))
            kinds_all.append(kinds)
            source = VecObj([Int(c, 32) for c in chars[d]])
            docs.append(Adt("Document", [Ref(Cell(source)), VecObj(toks)]))

        def stub_rule(it, rule, lo, hi, d):
            """what rule `rule` reports on the clause tokens[lo..hi) of document d: a function of the clause text only"""
            out = []
            if rule == "Q":
                for j in range(lo, hi):
                    if kinds_all[d][j] == "word" and it.ctx.branch(chars[d][j] == 113):
                        out.append((j, j + 1, 1))
            else:
                for j in range(lo, hi):
                    if kinds_all[d][j] == "word":
                        out.append((j, j + 1, 2 if not many else 10 + RULES.index(rule)))
                        break
            return out

        def mk_lint(s, e, tag):
            return Adt("Lint", [Adt("Span", [Int(s), Int(e)]), Int(0, 8), "suggestions", "message", Int(tag, 8)])

        def run_on_chunk_stub(it, callee, args):
            rule = deref(args[0])
            chunk = as_slice(args[1])
            d = state["call"]
            return VecObj([mk_lint(s, e, t) for s, e, t in stub_rule(it, rule.fields[0], chunk.lo, chunk.hi, d)])

        def is_rule_enabled_stub(it, callee, args):
            key = deref(args[1])
            name = key if isinstance(key, str) else "".join(chr(z3.simplify(c.t).as_long()) for c in key.chars)
            return enabled[state["call"]][name]

        def hash_one_stub(it, callee, args):
            en = enabled[state["call"]]
            t = z3.BitVecVal(0, 64)
            for i, k in enumerate([k for k in RULES if not many or k in SWITCHABLE]):
                t = t + z3.If(en[k], z3.BitVecVal(1 << i, 64), z3.BitVecVal(0, 64))
            return Int(t)

        resolve = {r"^run_on_chunk::<": run_on_chunk_stub,
                   r"^LintGroupConfig::is_rule_enabled$": is_rule_enabled_stub,
                   r"as BuildHasher>::hash_one::<": hash_one_stub}
        group = Adt("LintGroup", ["config", MapObj([]),
                                  MapObj([(StringObj([Int(ord(c), 32) for c in k]), Adt("StubRule", [k])) for k in RULES]),
                                  LruObj(), "random-state"])
        it = Interp(raw, MODELS, ctx, resolve, enums=enums)
        gcell = Cell(group)
        for d in range(ncalls):
            state["call"] = d
            try:
                out = it.call_fn(f_lint, [Ref(gcell), Ref(Cell(docs[d]))])
            except (PathEnd, Infeasible):
                out = None
            result["functions"] |= it.called
            for msg, where, model in it.panics:
                result["panics"].append({"msg": msg, "where": where, "input": describe(model)})
            it.panics = []
            if out is None:
                return
            got = [(l.fields[0].fields[0], l.fields[0].fields[1], z3.simplify(l.fields[4].t).as_long()) for l in [c.v for c in out.elems]]
            # expected: clause by clause, rule by rule (key order Q < W), computed from scratch
            kinds = kinds_all[d]
            L = lens[d]
            bounds = []
            lo = 0
            for j in range(L):
                if kinds[j] in ("period", "comma"):
                    bounds.append((lo, j + 1))
                    lo = j + 1
            if lo < L:
                bounds.append((lo, L))
            want = []
            for lo, hi in bounds:
                for rule in RULES:
                    if it.ctx.branch(enabled[d][rule]):
                        want += stub_rule(it, rule, lo, hi, d)
            ok = len(got) == len(want)
            claim = z3.BoolVal(ok)
            if ok:
                for (gs, ge, gt), (ws, we, wt) in zip(got, want):
                    claim = z3.And(claim, z3.BoolVal(gt == wt), gs.t == ws, ge.t == we)
            # prefer counterexamples the plain-English lexer tokenises the same way: lower-case letters, blanks, '.', ','
            nice = [z3.Or(z3.And(z3.UGE(c, 97), z3.ULE(c, 122)), c == 32, c == 46, c == 44) for cs in chars for c in cs]
            valid, model = ctx.valid(claim, nice)
            if not valid:
                m = model
                result["violations"].append({
                    "what": f"call {d + 1}: the lints differ from what the enabled rules produce on this document from scratch",
                    "input": describe(m),
                    "got": [(m.eval(a.t, model_completion=True).as_long(), m.eval(b.t, model_completion=True).as_long(), t) for a, b, t in got],
                    "want": want})
                return

    t0 = time.time()
    ex.run(body)
    result.update(paths=ex.stats["paths"], solver_queries=ex.stats["queries"], solver_s=round(ex.stats["solver_s"], 3),
                  forks=ex.stats["forks"], wall_s=round(time.time() - t0, 2), functions=sorted(result["functions"]))
    result["violations"] = result["violations"][:5]
    result["panics"] = result["panics"][:5]
    return result


if __name__ == "__main__":
    try:
        r = run(sys.argv[1], sys.argv[2], sys.argv[3])
        r["status"] = "violated" if (r["violations"] or r["panics"]) else "holds"
    except Unsupported as e:
        r = {"status": "unsupported", "why": str(e)}
    print(json.dumps(r))

"""C12 (lexing kernel) - what follows a paragraph break cannot change how the text before it is lexed.

For a lexer and a concrete paragraph P, MIR symbolic execution of lexer(P ++ "\\n\\n" ++ D) for T fully symbolic
characters D: on every path the result must equal lexer(P ++ "\\n\\n") (same decision, same token length).

usage: python3-vt c12lex.py <mir-dump> <lexer> <P> <T> <repo-src-dir>
"""
import json
import os
import sys
import time
import z3
sys.path.insert(0, os.path.dirname(os.path.abspath(__file__)))
from mir import load_functions, Unsupported
from exec import Explorer, Interp, Int, Adt, Enum, Cell, Ref, Tup, PathEnd, Infeasible
from models import MODELS, VecObj, SliceRef
from adts import load_enums


def run(mir_path, lexer, P, T, src_dir):
    raw = load_functions(mir_path)
    enums = load_enums(src_dir)
    cands = [n for n in raw if (n == lexer or n.endswith("::" + lexer)) and "{closure" not in n]
    if len(cands) != 1:
        raise Unsupported(f"cannot resolve lexer {lexer}: {cands}")
    fn = cands[0]
    base = P + "\n\n"
    tail = [z3.BitVec(f"t{i}", 32) for i in range(T)]
    ex = Explorer()
    result = {"lexer": lexer, "paragraph": P, "symbolic_chars": T, "violations": [], "panics": [], "functions": set()}

    def text(model):
        return base + "".join(chr(model.eval(c, model_completion=True).as_long()) for c in tail)

    def lex(it, chars):
        vec = VecObj(chars)
        out = it.call_fn(fn, [SliceRef(vec, 0, len(chars))])
        if out.variant == "Some":
            return out.fields[0].fields[0]  # next_index
        return None

    nice = [z3.And(z3.UGE(c, 33), z3.ULE(c, 126)) for c in tail]  # prefer printable counterexamples

    def body(ctx):
        for c in tail:
            ctx.assume(z3.And(z3.ULE(c, 0x10FFFF), z3.Or(z3.ULT(c, 0xD800), z3.UGT(c, 0xDFFF))))
        it = Interp(raw, MODELS, ctx, {}, enums=enums)
        try:
            ref = lex(it, [Int(ord(ch), 32) for ch in base])
            got = lex(it, [Int(ord(ch), 32) for ch in base] + [Int(c, 32) for c in tail])
        except (PathEnd, Infeasible):
            return
        finally:
            result["functions"] |= it.called
        for msg, where, model in it.panics:
            result["panics"].append({"msg": msg, "where": where, "text": text(model) if model is not None else None})
        if (ref is None) != (got is None):
            ok, model = ctx.valid(z3.BoolVal(False), nice)
            result["violations"].append({"what": f"{lexer} {'matches' if ref is not None else 'declines'} the paragraph alone but "
                                                 f"{'matches' if got is not None else 'declines'} it when other text follows the paragraph break",
                                         "text": text(model) if model is not None else None})
        elif ref is not None:
            ok, model = ctx.valid(ref.t == got.t, nice)
            if not ok:
                result["violations"].append({"what": f"{lexer} consumes a different number of characters when other text follows the paragraph break",
                                             "text": text(model)})

    t0 = time.time()
    ex.run(body)
    result.update(paths=ex.stats["paths"], solver_queries=ex.stats["queries"], solver_s=round(ex.stats["solver_s"], 3),
                  forks=ex.stats["forks"], wall_s=round(time.time() - t0, 2), functions=sorted(result["functions"]))
    result["violations"] = result["violations"][:5]
    result["panics"] = result["panics"][:5]
    return result


if __name__ == "__main__":
    try:
        r = run(sys.argv[1], sys.argv[2], sys.argv[3], int(sys.argv[4]), sys.argv[5])
        r["status"] = "violated" if (r["violations"] or r["panics"]) else "holds"
    except Unsupported as e:
        r = {"status": "unsupported", "why": str(e)}
    print(json.dumps(r))

"""C15 (kernel) - the dictionary back-ends agree; a merged dictionary is the union of its parts; fuzzy search returns
true near matches.

MIR symbolic execution of the real `MutableDictionary` (`new`, `append_word`, `contains_word`, `contains_exact_word`,
`get_word_metadata`, `get_correct_capitalization_of`, the `_str` variants, `words_iter`, `fuzzy_match`), `WordMap`,
`WordId::from_word_chars`, `CharStringExt::{normalized, to_lower}`, `edit_distance_min_alloc`, the delegating
`FstDictionary` methods and `MergedDictionary`'s `impl Dictionary`, on dictionaries whose words are fully symbolic letters
(ASCII and Latin-1, both cases) and a fully symbolic query.

The hash behind `WordId` (`foldhash::fast::FixedState::hash_one`) is modelled as an injective function of the hashed
characters (ids are equal iff the lower-cased words are equal: no collisions); hashbrown's map is an association list
iterated in insertion order (one of the orders Rust allows); `sorted_by_key` / `sorted_unstable_by_key` are stable sorts by
the real key closure (only the order of the keys is asserted, so any order among equal keys would pass).

scenario `merged:<La>:<Lb>:<Lq>`  two MutableDictionary children holding one word each (built by the real `append_word`) inside
    a MergedDictionary, and an FstDictionary wrapper around the first child: every membership / exact-capitalisation /
    metadata / canonical-spelling query - `[char]` and `str` forms - answers as the union of the parts (first part that
    knows the word wins), and the FstDictionary answers exactly like the MutableDictionary it wraps.
scenario `union:<child>:<child>[:<child>]:<Lq>`  (child = word lengths joined by '+', e.g. `1+1`) a MergedDictionary assembled by the
    real `MergedDictionary::new` + `add_dictionary` (child hashing executed; the hasher records what is written and `finish`
    is injective in it; `FstDictionary::curated()` is a stub pointer no child is equal to): membership, exact membership and
    canonical spelling are the union of ALL children that were added.
scenario `fstfuzzy:<Lq>:<D>:<R>:<L1>[:<L2>]`  the real `FstDictionary::fuzzy_match` with the fst / levenshtein_automata crates behind
    a contract (the DFA search yields, in key order, exactly the indexed words within distance D of its query, with exact
    distances): results are dictionary words with a true distance (to the query or its lower-case form) within the bound,
    ordered, distinct, capped, and complete for lower-case queries.
scenario `fstfuzzy2:...`  the same after an earlier `fuzzy_match` with a distance budget larger by 2 on the same FstDictionary and
    thread: `build_dfa` and its thread-local store of automaton builders are real code (the store is created by its own
    initialiser once per path and persists), so what is decided includes that the second look-up is not affected by the first.
scenario `fuzzy:<Lq>:<D>:<R>:<L1>[:<L2>]`  one MutableDictionary holding one or two words, `fuzzy_match(query, D, R)`: every
    result is one of the words, its distance is min(lev(query, w), lev(lower(query), w)) <= D, results are ordered by
    distance, distinct and at most R, and (R >= number of words) every word within distance D of a lower-case query is
    returned; with R = 1 a closest word is returned. With two words the same through a MergedDictionary holding them in
    two children.

usage: python3-vt c15dict.py <mir-dump> <scenario> <repo-src-dir>
"""
import json
import os
import sys
import time
import z3
sys.path.insert(0, os.path.dirname(os.path.abspath(__file__)))
from mir import load_functions, Unsupported
from exec import Explorer, Interp, Int, Adt, Enum, Cell, Ref, BoxRef, Tup, PathEnd, Infeasible
from models import MODELS, VecObj, SliceRef, StringObj, as_slice, deref
from adts import load_enums
from anyval import AnyBuilder, load_structs


def is_letter(c):
    """ASCII letters and the Latin-1 letters whose case mappings are 1:1 inside Latin-1 (models.latin1_exact)"""
    return z3.Or(z3.And(z3.UGE(c, 65), z3.ULE(c, 90)), z3.And(z3.UGE(c, 97), z3.ULE(c, 122)),
                 z3.And(z3.UGE(c, 0xC0), z3.ULE(c, 0xFE), c != 0xD7, c != 0xDF, c != 0xF7))


def is_upper(c):
    return z3.Or(z3.And(z3.UGE(c, 65), z3.ULE(c, 90)), z3.And(z3.UGE(c, 0xC0), z3.ULE(c, 0xDE), c != 0xD7))


def is_lower(c):
    return z3.And(is_letter(c), z3.Not(is_upper(c)))


def lower(c):
    return z3.If(is_upper(c), c + 32, c)


def upper(c):
    return z3.If(is_lower(c), c - 32, c)


def seq_eq(xs, ys):
    if len(xs) != len(ys):
        return z3.BoolVal(False)
    return z3.And(*[x == y for x, y in zip(xs, ys)]) if xs else z3.BoolVal(True)


def lev(xs, ys):
    """the Levenshtein distance of two symbolic words of concrete lengths, as an 8-bit term (textbook recurrence)"""
    prev = [z3.BitVecVal(j, 8) for j in range(len(ys) + 1)]
    for i in range(1, len(xs) + 1):
        cur = [z3.BitVecVal(i, 8)]
        for j in range(1, len(ys) + 1):
            sub = prev[j - 1] + z3.If(xs[i - 1] == ys[j - 1], z3.BitVecVal(0, 8), z3.BitVecVal(1, 8))
            a, b = prev[j] + 1, cur[j - 1] + 1
            m = z3.If(z3.ULT(a, b), a, b)
            cur.append(z3.If(z3.ULT(sub, m), sub, m))
        prev = cur
    return prev[len(ys)]


def chars_of(v):
    sl = as_slice(v)
    return [sl.vec.elems[sl.lo + i].v.t for i in range(len(sl))]


def run(mir_path, scenario, src_dir):
    raw = load_functions(mir_path)
    enums = load_enums(src_dir)
    structs = load_structs(src_dir)
    parts = scenario.split(":")
    kind = parts[0]
    dims = [int(x) for x in parts[1:]] if kind != "union" else []
    ex = Explorer()
    result = {"scenario": scenario, "violations": [], "panics": [], "functions": set()}

    def find(suffix, ty=None, trait=None, it=None):
        c = [n for n in raw if n.endswith(suffix) and "{closure" not in n and (ty is None or it.impl_type(n) == ty)
             and (trait is None or it.impl_trait(n) == trait)]
        if len(c) != 1:
            raise Unsupported(f"cannot resolve {ty}::{suffix}: {c[:4]}")
        return c[0]

    def body(ctx):
        try:
            body_(ctx)
        except PathEnd:
            pass

    def body_(ctx):
        builder = AnyBuilder(ctx, structs, enums)
        nice = []

        def word(tag, n):
            cs = [z3.BitVec(f"{tag}{i}", 32) for i in range(n)]
            for c in cs:
                ctx.assume(is_letter(c))
            return cs

        def hash_one(it_, callee, args):
            # injective in the hashed characters: the id *is* the sequence (packed 7 bits per ASCII letter + the length)
            cs = chars_of(args[1])
            if len(cs) > 7:
                raise Unsupported("hash_one of a word longer than 7 chars")
            t = z3.BitVecVal(len(cs), 64)
            for c in cs:
                t = (t << 8) | z3.ZeroExt(32, c & 0xFF)
            return Int(t, 64, False)

        class SymHasher:
            heap = True

            def __init__(self):
                self.rec = []

        def pack(terms):
            if len(terms) > 7:
                raise Unsupported("more than 7 chars written to a hasher")
            t = z3.BitVecVal(len(terms), 64)
            for c in terms:
                t = (t << 8) | z3.ZeroExt(32, c & 0xFF)
            return Int(t, 64, False)

        def build_hasher(it_, callee, args):
            return SymHasher()

        def write_u32(it_, callee, args):
            deref(args[0]).rec.append(deref(args[1]).t if not isinstance(args[1], Int) else args[1].t)
            return ()

        def finish(it_, callee, args):
            # injective in what was written (ASCII letters): the hash *is* the written sequence
            return pack(deref(args[0]).rec)

        def curated_stub(it_, callee, args):
            return BoxRef(Cell(Adt("FstDictionary", [BoxRef(Cell(Adt("MutableDictionary", ["curated"]))), "fst-map", VecObj([])])))

        def ptr_eq(it_, callee, args):
            a, b = args
            a = a.get() if isinstance(a, Ref) and isinstance(a.get(), Ref) else a
            b = b.get() if isinstance(b, Ref) and isinstance(b.get(), Ref) else b
            return z3.BoolVal(a.cell is b.cell)

        resolve = {r"as BuildHasher>::hash_one::<": hash_one, r"as BuildHasher>::build_hasher$": build_hasher,
                   r"as Hasher>::write_u32$": write_u32, r"as Hasher>::finish$": finish, r"^FstDictionary::curated$": curated_stub,
                   r"^Arc::<.*>::ptr_eq$": ptr_eq}
        it = Interp(raw, MODELS, ctx, resolve, enums=enums)
        MD, MG, FS = "MutableDictionary", "MergedDictionary", "FstDictionary"
        f_new = find("::new", MD, it=it)
        f_append = [n for n in raw if "MutableDictionary::append_word::<" in n and "{closure" not in n]
        if not f_append:
            f_append = [n for n in raw if n.endswith("::append_word") and it.impl_type(n) == MD]
        if len(f_append) < 1:
            raise Unsupported("cannot resolve MutableDictionary::append_word")

        def mk_meta(tag):
            md = builder.any("WordMetadata", tag)
            return md

        def mk_dict(words):
            d = it.call_fn(f_new, [])
            cell = Cell(d)
            metas = []
            for k, (cs, tag) in enumerate(words):
                md = mk_meta(tag)
                metas.append(md)
                vec = VecObj([Int(c, 32) for c in cs])
                it.call_generic(f_append[0], [Ref(cell), SliceRef(vec, 0, len(cs)), md]) if hasattr(it, "call_generic") else \
                    it.call_fn(f_append[0], [Ref(cell), SliceRef(vec, 0, len(cs)), md])
            return cell, metas

        def q_slice(cs):
            vec = VecObj([Int(c, 32) for c in cs])
            return SliceRef(vec, 0, len(cs))

        def q_str(cs):
            return Ref(Cell(StringObj([Int(c, 32) for c in cs])))

        def method(ty, name):
            return find("::" + name, ty, "Dictionary", it=it)

        def call(ty, name, cell, *args):
            return it.call_fn(method(ty, name), [Ref(cell)] + list(args))

        def describe(model, ws):
            if model is None:
                return None
            return {k: "".join(chr(model.eval(c, model_completion=True).as_long()) for c in cs) for k, cs in ws.items()}

        def common_of(md):
            md = deref(md)
            names = [f for f, _t in structs["WordMetadata"]]
            return md.fields[names.index("common")]

        claims = []
        ws = {}
        try:
            if kind == "merged":
                la, lb, lq = dims
                wa, wb, q = word("a", la), word("b", lb), word("q", lq)
                ws = {"a": wa, "b": wb, "q": q}
                ca, ma = mk_dict([(wa, "meta_a")])
                cb, mb = mk_dict([(wb, "meta_b")])
                merged = Adt(MG, [VecObj([BoxRef(ca), BoxRef(cb)]), Adt("FixedState", [Int(0)]), VecObj([Int(0), Int(0)])])
                cm = Cell(merged)
                fst = Adt(FS, [BoxRef(ca), "fst-map", VecObj([])])
                cf = Cell(fst)
                low = lambda w: [lower(c) for c in w]
                in_a, in_b = seq_eq(low(wa), low(q)), seq_eq(low(wb), low(q))
                ex_a, ex_b = seq_eq(wa, q), seq_eq(wb, q)

                def as_bool(v):
                    return v if z3.is_bool(v) else (v.t != 0)

                for form, arg in (("", q_slice(q)), ("_str", q_str(q))):
                    r = call(MG, "contains_word" + form, cm, arg)
                    claims.append((as_bool(r) == z3.Or(in_a, in_b), f"MergedDictionary::contains_word{form} is not the union of its parts"))
                    r = call(MG, "contains_exact_word" + form, cm, arg)
                    claims.append((as_bool(r) == z3.Or(ex_a, ex_b), f"MergedDictionary::contains_exact_word{form} is not the union of its parts"))
                    r = call(MG, "get_word_metadata" + form, cm, arg)
                    if r.variant == "None":
                        claims.append((z3.Not(z3.Or(in_a, in_b)), f"MergedDictionary::get_word_metadata{form} misses a word one of its parts knows"))
                    else:
                        got = common_of(r.fields[0])
                        want = z3.If(in_a, common_of(ma[0]), common_of(mb[0]))
                        claims.append((z3.And(z3.Or(in_a, in_b), got == want),
                                       f"MergedDictionary::get_word_metadata{form} does not return the metadata of the first part that knows the word"))
                    # the single-dictionary back-ends: MutableDictionary against the definition, FstDictionary against it
                    for ty, cell in ((MD, ca), (FS, cf)):
                        r = call(ty, "contains_word" + form, cell, arg)
                        claims.append((as_bool(r) == in_a, f"{ty}::contains_word{form} is wrong"))
                        r = call(ty, "contains_exact_word" + form, cell, arg)
                        claims.append((as_bool(r) == ex_a, f"{ty}::contains_exact_word{form} is wrong"))
                        r = call(ty, "get_word_metadata" + form, cell, arg)
                        claims.append((z3.BoolVal(r.variant == "Some") == in_a if False else
                                       (in_a if r.variant == "Some" else z3.Not(in_a)), f"{ty}::get_word_metadata{form} is wrong"))
                for ty, cell, want_some, want_word in ((MG, cm, z3.Or(in_a, in_b), None), (MD, ca, in_a, wa), (FS, cf, in_a, wa)):
                    r = call(ty, "get_correct_capitalization_of", cell, q_slice(q))
                    if r.variant == "None":
                        claims.append((z3.Not(want_some), f"{ty}::get_correct_capitalization_of misses a word it contains"))
                    else:
                        got = chars_of(r.fields[0])
                        if want_word is None:
                            okw = z3.Or(z3.And(in_a, seq_eq(got, wa)), z3.And(z3.Not(in_a), in_b, seq_eq(got, wb)))
                        else:
                            okw = z3.And(want_some, seq_eq(got, want_word))
                        claims.append((okw, f"{ty}::get_correct_capitalization_of does not return the stored spelling"))
            elif kind == "union":
                # a MergedDictionary assembled by the real `MergedDictionary::new` + `add_dictionary` (with its child hashing)
                specs = parts[1:-1]
                lq = int(parts[-1])
                q = word("q", lq)
                ws = {"q": q}
                low = lambda w: [lower(c) for c in w]
                kids = []
                result["children_tags"] = []
                tagc = iter("abcdefgh")
                for spec in specs:
                    wl_ = []
                    for n in spec.split("+"):
                        t = next(tagc)
                        w_ = word(t, int(n))
                        ws[t] = w_
                        wl_.append((w_, "meta_" + t))
                    for i in range(len(wl_)):
                        for j in range(i):
                            ctx.assume(z3.Not(seq_eq(low(wl_[i][0]), low(wl_[j][0]))))  # distinct entries inside one dictionary
                    cell, metas = mk_dict(wl_)
                    kids.append((cell, [w_ for w_, _t in wl_], metas))
                    result["children_tags"].append([t_[5:] for _w, t_ in wl_])
                f_mnew = find("::new", MG, it=it)
                f_add = find("::add_dictionary", MG, it=it)
                cm = Cell(it.call_fn(f_mnew, []))
                for cell, _w, _m in kids:
                    it.call_fn(f_add, [Ref(cm), BoxRef(cell)])
                all_words = [(w_, md) for _c, wl_, ms_ in kids for w_, md in zip(wl_, ms_)]
                contains = z3.Or(*[seq_eq(low(w_), low(q)) for w_, _m in all_words])
                exact = z3.Or(*[seq_eq(w_, q) for w_, _m in all_words])

                def as_bool(v):
                    return v if z3.is_bool(v) else (v.t != 0)

                r = call(MG, "contains_word", cm, q_slice(q))
                claims.append((as_bool(r) == contains, "MergedDictionary (built with add_dictionary)::contains_word is not the union of its parts"))
                r = call(MG, "contains_exact_word", cm, q_slice(q))
                claims.append((as_bool(r) == exact, "MergedDictionary (built with add_dictionary)::contains_exact_word is not the union of its parts"))
                r = call(MG, "get_correct_capitalization_of", cm, q_slice(q))
                if r.variant == "None":
                    claims.append((z3.Not(contains), "MergedDictionary (built with add_dictionary)::get_correct_capitalization_of misses a word of a part"))
                else:
                    got = chars_of(r.fields[0])
                    claims.append((z3.Or(*[z3.And(seq_eq(low(w_), low(q)), seq_eq(got, w_)) for w_, _m in all_words]),
                                   "MergedDictionary (built with add_dictionary)::get_correct_capitalization_of returns something else than a stored spelling of the word"))
                r = call(MG, "word_count", cm) if [n for n in raw if n.endswith("::word_count") and it.impl_type(n) == MG] else None
            elif kind in ("fstfuzzy", "fstfuzzy2"):
                warm = 2 if kind == "fstfuzzy2" else 0
                # FstDictionary::fuzzy_match with the fst crate behind a contract: `build_dfa(D, query)` + `search_with_state` +
                # `stream_distances_vec` yield, in key (lexicographic) order, exactly the (index, distance) pairs of the indexed
                # words whose Levenshtein distance to that query is <= D, with the exact distance. Everything after that - the zip of
                # the two result lists, the choice, the index into `words`, sort / dedup / sort / truncate - is the real code.
                lq, D, R = dims[:3]
                wl = dims[3:]
                q = word("q", lq)
                wds = [word("ab"[k], n) for k, n in enumerate(wl)]
                ws = {"q": q}
                ws.update({"ab"[k]: w for k, w in enumerate(wds)})
                low = lambda w: [lower(c) for c in w]
                if len(wds) == 2:
                    ctx.assume(z3.Not(seq_eq(low(wds[0]), low(wds[1]))))
                    # FstDictionary::new sorts its word list: index order = lexicographic order
                    a_, b_ = wds
                    lt = z3.BoolVal(len(a_) < len(b_))
                    for i in range(min(len(a_), len(b_)) - 1, -1, -1):
                        lt = z3.If(z3.ULT(a_[i], b_[i]), z3.BoolVal(True), z3.If(a_[i] == b_[i], lt, z3.BoolVal(False)))
                    ctx.assume(lt)
                cfull, metas = mk_dict([(w, "meta_" + "ab"[k]) for k, w in enumerate(wds)])
                words_vec = VecObj([Tup([VecObj([Int(c, 32) for c in w]), md]) for w, md in zip(wds, metas)])
                cf = Cell(Adt(FS, [BoxRef(cfull), "fst-map", words_vec]))

                # `build_dfa` itself (the thread-local builder store) is real code; the levenshtein_automata crate is the contract:
                # a builder made for distance d builds automata that accept exactly the words within d of the query
                def builder_new(it_, callee, args):
                    return Adt("LevenshteinAutomatonBuilder", [args[0]])

                def builder_build(it_, callee, args):
                    return Adt("DFA", [deref(args[0]).fields[0], deref(args[1])])

                def search(it_, callee, args):
                    return args[1]

                def stream_distances(it_, callee, args):
                    dfa = deref(args[1])
                    dmax, qs = dfa.fields[0], [c.t for c in dfa.fields[1].chars]
                    out_ = []
                    for k, w in enumerate(wds):
                        dist = lev(qs, w)
                        if it_.ctx.branch(z3.ULE(dist, dmax.t)):
                            out_.append(Tup([Int(k, 64), Int(dist, 8)]))
                    return VecObj(out_)

                it.resolve_map[r"^LevenshteinAutomatonBuilder::new$"] = builder_new
                it.resolve_map[r"^LevenshteinAutomatonBuilder::build_dfa$"] = builder_build
                it.resolve_map[r"^fst::Map::<.*>::search_with_state::<"] = search
                it.resolve_map[r"as IntoStreamer<'_>>::into_stream$"] = lambda it_, c_, a: a[0]
                it.resolve_map[r"^(fst_dictionary::)?stream_distances_vec$"] = stream_distances
                ds = [(lev(q, w), lev(low(q), w)) for w in wds]
                q_is_lower = z3.And(*[is_lower(c) for c in q]) if q else z3.BoolVal(True)
                if warm:
                    # history: an earlier look-up with a larger distance budget on the same thread (thread-local builder store)
                    q0 = word("p", lq)
                    ws["earlier_query"] = q0
                    call(FS, "fuzzy_match", cf, q_slice(q0), Int(D + warm, 8), Int(R, 64))
                out = call(FS, "fuzzy_match", cf, q_slice(q), Int(D, 8), Int(R, 64))
                res = [c.v for c in out.elems]
                ty = FS
                if len(res) > R:
                    claims.append((z3.BoolVal(False), f"{ty}::fuzzy_match returns more than max_results results"))
                prev = None
                hits = [z3.BoolVal(False) for _ in wds]
                for r in res:
                    wd, dist = chars_of(r.fields[0]), r.fields[1].t
                    iss = [seq_eq(wd, w) for w in wds]
                    claims.append((z3.Or(*[z3.And(i_, z3.Or(dist == d_, dist == dl_)) for i_, (d_, dl_) in zip(iss, ds)]),
                                   f"{ty}::fuzzy_match: a result is not a dictionary word with a true edit distance to the query or its lower-case form"))
                    claims.append((z3.ULE(dist, D), f"{ty}::fuzzy_match: a result lies beyond max_distance"))
                    if prev is not None:
                        claims.append((z3.ULE(prev, dist), f"{ty}::fuzzy_match: results are not ordered by distance"))
                    prev = dist
                    hits = [z3.Or(h, i_) for h, i_ in zip(hits, iss)]
                if len(res) == 2:
                    claims.append((z3.Not(seq_eq(chars_of(res[0].fields[0]), chars_of(res[1].fields[0]))), f"{ty}::fuzzy_match returns the same word twice"))
                if R >= len(wds):
                    for h, (d_, dl_) in zip(hits, ds):
                        claims.append((z3.Implies(z3.And(q_is_lower, z3.ULE(d_, D)), h),
                                       f"{ty}::fuzzy_match misses a word within max_distance of a lower-case query"))
            elif kind == "fuzzy":
                lq, D, R = dims[:3]
                wl = dims[3:]
                q = word("q", lq)
                wds = [word("ab"[k], n) for k, n in enumerate(wl)]
                ws = {"q": q}
                ws.update({"ab"[k]: w for k, w in enumerate(wds)})
                low = lambda w: [lower(c) for c in w]
                if len(wds) == 2:
                    ctx.assume(z3.Not(seq_eq(low(wds[0]), low(wds[1]))))  # two different dictionary entries
                c1, _m = mk_dict([(w, "meta_" + "ab"[k]) for k, w in enumerate(wds)])
                backends = [(MD, c1)]
                if len(wds) == 2:
                    ca, _ = mk_dict([(wds[0], "meta_a")])
                    cb, _ = mk_dict([(wds[1], "meta_b")])
                    cm = Cell(Adt(MG, [VecObj([BoxRef(ca), BoxRef(cb)]), Adt("FixedState", [Int(0)]), VecObj([Int(0), Int(0)])]))
                    backends.append((MG, cm))
                ms = []
                for w in wds:
                    d, dl = lev(q, w), lev(low(q), w)
                    ms.append(z3.If(z3.ULT(d, dl), d, dl))
                q_is_lower = z3.And(*[is_lower(c) for c in q]) if q else z3.BoolVal(True)
                for ty, cell in backends:
                    out = call(ty, "fuzzy_match", cell, q_slice(q), Int(D, 8), Int(R, 64))
                    res = [c.v for c in out.elems]
                    if len(res) > R:
                        claims.append((z3.BoolVal(False), f"{ty}::fuzzy_match returns more than max_results results"))
                    prev = None
                    hits = [z3.BoolVal(False) for _ in wds]
                    for r in res:
                        wd, dist = chars_of(r.fields[0]), r.fields[1].t
                        iss = [seq_eq(wd, w) for w in wds]
                        claims.append((z3.Or(*[z3.And(i_, dist == m_) for i_, m_ in zip(iss, ms)]),
                                       f"{ty}::fuzzy_match: a result is not a dictionary word with its true edit distance"))
                        claims.append((z3.ULE(dist, D), f"{ty}::fuzzy_match: a result lies beyond max_distance"))
                        if prev is not None:
                            claims.append((z3.ULE(prev, dist), f"{ty}::fuzzy_match: results are not ordered by distance"))
                        prev = dist
                        hits = [z3.Or(h, i_) for h, i_ in zip(hits, iss)]
                    if len(res) == 2:
                        claims.append((z3.Not(seq_eq(chars_of(res[0].fields[0]), chars_of(res[1].fields[0]))),
                                       f"{ty}::fuzzy_match returns the same word twice"))
                    if R >= len(wds):
                        for h, m_ in zip(hits, ms):
                            claims.append((z3.Implies(z3.And(q_is_lower, z3.ULE(m_, D)), h),
                                           f"{ty}::fuzzy_match misses a word within max_distance of a lower-case query"))
                    elif R == 1:
                        best = z3.If(z3.ULT(ms[0], ms[1]), ms[0], ms[1])
                        claims.append((z3.Implies(z3.And(q_is_lower, z3.ULE(best, D)), z3.BoolVal(len(res) == 1)),
                                       f"{ty}::fuzzy_match returns nothing although a word lies within max_distance"))
                        if len(res) == 1:
                            claims.append((z3.Implies(q_is_lower, res[0].fields[1].t == best),
                                           f"{ty}::fuzzy_match with max_results = 1 does not return a closest word"))
            else:
                raise Unsupported(f"scenario {kind}")
        except Infeasible:
            return
        finally:
            result["functions"] |= it.called
            for msg, where, model in it.panics:
                result["panics"].append({"msg": msg, "where": where, "input": describe(model, ws)})
        if it.panics:
            return
        for claim, what in claims:
            ok, model = ctx.valid(claim, nice)
            if not ok:
                d = describe(model, ws)
                if kind in ("fuzzy", "fstfuzzy", "fstfuzzy2"):
                    d.update(max_distance=dims[1], max_results=dims[2])
                if kind == "union":
                    d["children"] = [[d[t] for t in ch] for ch in result["children_tags"][:len(parts) - 2]]
                result["violations"].append({"what": what, "input": d})
                break

    t0 = time.time()
    ex.run(body)
    result.update(paths=ex.stats["paths"], solver_queries=ex.stats["queries"], solver_s=round(ex.stats["solver_s"], 3),
                  forks=ex.stats["forks"], wall_s=round(time.time() - t0, 2), functions=sorted(result["functions"]))
    seen, uniq = set(), []
    for v in result["violations"]:
        if v["what"] not in seen:
            seen.add(v["what"])
            uniq.append(v)
    result["violations"] = uniq[:6]
    result["panics"] = result["panics"][:5]
    return result


if __name__ == "__main__":
    try:
        r = run(sys.argv[1], sys.argv[2], sys.argv[3])
        r["status"] = "violated" if (r["violations"] or r["panics"]) else "holds"
    except Unsupported as e:
        r = {"status": "unsupported", "why": str(e)}
    print(json.dumps(r))

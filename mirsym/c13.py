"""C13 - overlap resolution: symbolic execution of the real MIR of harper_core::remove_overlaps
(+ its sort-key closure, VecExt::remove_indices and its retain closure) for N lints with fully
symbolic spans; z3 decides every branch and the post-conditions on every path.

usage: python3-vt c13.py <mir-dump> <N> [<text_len>]   -> prints one JSON object
"""
import json
import sys
import time
import z3
import os
sys.path.insert(0, os.path.dirname(os.path.abspath(__file__)))
from mir import load_functions, Unsupported
from exec import Explorer, Interp, Int, Adt, Cell, Ref, PathEnd, Infeasible
from models import MODELS, VecObj


def find_fn(raw, suffix, contains=""):
    c = [n for n in raw if n.endswith(suffix) and contains in n]
    if len(c) != 1:
        raise Unsupported(f"cannot uniquely resolve MIR function *{suffix}: {c}")
    return c[0]


def run(mir_path, n, text_len):
    raw = load_functions(mir_path)
    f_ro = find_fn(raw, "remove_overlaps")
    f_ri = find_fn(raw, ">::remove_indices", "vec_ext")
    resolve = {r" as VecExt>::remove_indices$": f_ri}
    starts = [z3.BitVec(f"s{i}", 64) for i in range(n)]
    ends = [z3.BitVec(f"e{i}", 64) for i in range(n)]
    ex = Explorer()
    result = {"n": n, "text_len": text_len, "violations": [], "panics": [], "functions": set(), "paths": 0}
    T = z3.BitVecVal(text_len, 64)

    def body(ctx):
        for s, e in zip(starts, ends):
            ctx.assume(z3.And(z3.ULE(s, e), z3.ULE(e, T)))
        lints = []
        for i in range(n):
            span = Adt("Span", [Int(starts[i]), Int(ends[i])])
            # Lint { span, lint_kind, suggestions, message, priority }; priority carries the identity tag
            lints.append(Adt("Lint", [span, Int(0, 8), "suggestions", "message", Int(i, 8)]))
        vec = VecObj(lints)
        it = Interp(raw, MODELS, ctx, resolve)
        try:
            it.call_fn(f_ro, [Ref(Cell(vec))])
        except (PathEnd, Infeasible):
            pass
        result["functions"] |= it.called
        for msg, where, model in it.panics:
            result["panics"].append({"msg": msg, "where": where, "input": model_spans(model)})
        # ---- post-conditions on this path
        out = [c.v for c in vec.elems]
        tags = []
        for l in out:
            t = z3.simplify(l.fields[4].t)
            if not z3.is_bv_value(t):
                raise Unsupported("identity tag became symbolic")
            tags.append(t.as_long())
        claims = []
        if len(set(tags)) != len(tags) or any(t >= n for t in tags):
            report(ctx, result, z3.BoolVal(False), "output is not a sub-list of the input (duplicate or invented lint)", tags)
            return
        for l, t in zip(out, tags):
            claims.append((z3.And(l.fields[0].fields[0].t == starts[t], l.fields[0].fields[1].t == ends[t]),
                           f"lint {t} was altered"))
        kept = set(tags)
        for a in kept:
            for b in kept:
                if a < b:
                    # no common character: spans [s,e) disjoint (Span::overlaps_with false)
                    claims.append((z3.Not(z3.And(z3.ULT(starts[a], ends[b]), z3.ULT(starts[b], ends[a]))),
                                   f"kept lints {a} and {b} overlap"))
        for d in range(n):
            if d not in kept:
                just = z3.Or([z3.And(z3.ULE(starts[k], starts[d]), z3.ULT(starts[d], ends[k])) for k in kept]) if kept else z3.BoolVal(False)
                claims.append((just, f"dropped lint {d} does not start inside a kept lint"))
        for claim, what in claims:
            report(ctx, result, claim, what, tags)

    def model_spans(model):
        return [[model.eval(s, model_completion=True).as_long(), model.eval(e, model_completion=True).as_long()]
                for s, e in zip(starts, ends)]

    def report(ctx, result, claim, what, tags):
        ok, model = ctx.valid(claim)
        if not ok:
            result["violations"].append({"what": what, "input": model_spans(model), "kept_on_this_path": tags})

    t0 = time.time()
    ex.run(body)
    result["paths"] = ex.stats["paths"]
    result["solver_queries"] = ex.stats["queries"]
    result["solver_s"] = round(ex.stats["solver_s"], 3)
    result["forks"] = ex.stats["forks"]
    result["wall_s"] = round(time.time() - t0, 2)
    result["functions"] = sorted(result["functions"])
    return result


def run_concrete(raw, spans):
    """Execute the MIR on concrete spans (every branch folds, one path); returns the kept tags in order."""
    f_ro = find_fn(raw, "remove_overlaps")
    f_ri = find_fn(raw, ">::remove_indices", "vec_ext")
    resolve = {r" as VecExt>::remove_indices$": f_ri}
    ex = Explorer()
    out = {}

    def body(ctx):
        lints = [Adt("Lint", [Adt("Span", [Int(s), Int(e)]), Int(0, 8), "suggestions", "message", Int(i, 8)])
                 for i, (s, e) in enumerate(spans)]
        vec = VecObj(lints)
        it = Interp(raw, MODELS, ctx, resolve)
        it.call_fn(f_ro, [Ref(Cell(vec))])
        out["tags"] = [z3.simplify(c.v.fields[4].t).as_long() for c in vec.elems]
        out["panics"] = len(it.panics)
    ex.run(body)
    if ex.stats["paths"] != 1:
        raise Unsupported("concrete run forked")
    return out


def selftest(mir_path, native, seed, cases):
    """Translation validation: the executor on concrete inputs must agree with the native function."""
    import random
    import subprocess
    raw = load_functions(mir_path)
    rnd = random.Random(seed)
    fixed = [[(0, 10), (2, 3), (5, 8)], [(0, 5), (20, 22), (3, 8)], [(3, 3), (3, 3)], [(0, 4), (0, 9), (0, 4)], []]
    mism = []
    n_run = 0
    for k in range(cases):
        if k < len(fixed):
            spans = fixed[k]
        else:
            n = rnd.randint(0, 6)
            spans = []
            for _ in range(n):
                a = rnd.randint(0, 9)
                spans.append((a, rnd.randint(a, 10)))
        got = run_concrete(raw, spans)["tags"]
        spec = ";".join(f"{s},{e}" for s, e in spans)
        r = subprocess.run([native, "remove-overlaps-raw", spec], stdout=subprocess.PIPE, text=True)
        want = [int(x) for x in r.stdout.split()]
        n_run += 1
        if got != want:
            mism.append({"spans": spans, "mirsym": got, "native": want})
    return {"status": "agree" if not mism else "DISAGREE", "cases": n_run, "mismatches": mism[:5]}


if __name__ == "__main__":
    if sys.argv[1] == "--selftest":
        try:
            print(json.dumps(selftest(sys.argv[2], sys.argv[3], int(sys.argv[4]), int(sys.argv[5]))))
        except Unsupported as e:
            print(json.dumps({"status": "unsupported", "why": str(e)}))
        sys.exit(0)
    mirp, n = sys.argv[1], int(sys.argv[2])
    tl = int(sys.argv[3]) if len(sys.argv) > 3 else 12
    try:
        r = run(mirp, n, tl)
        r["status"] = "violated" if (r["violations"] or r["panics"]) else "holds"
    except Unsupported as e:
        r = {"status": "unsupported", "why": str(e), "n": n}
    print(json.dumps(r))

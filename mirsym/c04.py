"""C04 / C01 (kernel) - the comment wrappers of harper-comments hand the inner parser slices of the comment and put its
tokens back where those slices came from.

MIR symbolic execution of `<Unit | Go | JsDoc as Parser>::parse` (with `without_initiators`, `parse_line`,
`mark_inline_tags`, `Span::get_content` ...) on every comment text of L fully symbolic characters. The inner parser is a stub
that returns one word token covering exactly the slice it is given and remembers where in the comment that slice lies.
On every path: no panic; every word token of the result covers exactly the characters the inner parser saw (true
offset); every Newline token the wrapper inserts is one character wide and sits on a line feed; tokens are in order.

With a skeleton instead of a length (`?` = symbolic character, `\\n` = line feed, the rest literal; Unit only) the code-fence
rule is checked as well: nothing on a line inside a ``` fence is handed to the inner parser, prose lines outside are.

usage: python3-vt c04.py <core-mir> <comments-mir> <Unit|Go|JsDoc> <L | skeleton> <repo-root>
"""
import json
import os
import sys
import time
import z3
sys.path.insert(0, os.path.dirname(os.path.abspath(__file__)))
from mir import load_functions, Unsupported
from exec import Explorer, Interp, Int, Adt, Enum, Cell, Ref, BoxRef, Tup, PathEnd, Infeasible
from models import MODELS, VecObj, SliceRef, as_slice, deref
from adts import load_enums, load_type_names


def run(core_mir, comments_mir, which, L, repo_root):
    skeleton = None
    if not str(L).isdigit():
        # a skeleton: `?` is a fully symbolic character, `\\n` a line feed, everything else is literal
        skeleton = str(L).replace("\\n", "\n")
        L = len(skeleton)
    L = int(L)
    raw = load_functions(core_mir)
    raw.update(load_functions(comments_mir))
    enums = load_enums(os.path.join(repo_root, "harper-core", "src"))
    enums.update({k: v for k, v in load_enums(os.path.join(repo_root, "harper-comments", "src")).items() if k not in enums})
    mod = {"Unit": "unit", "Go": "go", "JsDoc": "jsdoc"}[which]
    cands = [n for n in raw if n.endswith(">::parse") and n.startswith(mod + "::<impl at")]
    if len(cands) != 1:
        raise Unsupported(f"cannot resolve {which}::parse: {cands}")
    fn = cands[0]
    chars = [z3.BitVec(f"c{i}", 32) for i in range(L)]
    nice = [z3.Or(z3.And(z3.UGE(c, 32), z3.ULE(c, 126)), c == 10) for c in chars] + ([chars[0] == 47] if L else [])
    ex = Explorer()
    result = {"parser": which, "len": L, "violations": [], "panics": [], "functions": set()}
    TK = enums["TokenKind"]

    def text(model):
        if model is None:
            return None
        return "".join(chr(model.eval(c, model_completion=True).as_long()) for c in chars)

    def body(ctx):
        for i_, c in enumerate(chars):
            ctx.assume(z3.And(z3.ULE(c, 0x10FFFF), z3.Or(z3.ULT(c, 0xD800), z3.UGT(c, 0xDFFF))))
            if skeleton is not None:
                if skeleton[i_] != "?":
                    ctx.assume(c == ord(skeleton[i_]))
                else:
                    ctx.assume(c != 10)  # the line structure of a skeleton is fixed
        src = VecObj([Int(c, 32) for c in chars])
        seen = []

        def inner_parse(it, callee, args):
            sl = as_slice(args[1])
            if sl.vec is not src:
                raise Unsupported("the inner parser was handed something that is not a slice of the comment")
            seen.append((sl.lo, sl.hi))
            n = sl.hi - sl.lo
            if n == 0:
                return VecObj([])
            return VecObj([Adt("Token", [Adt("Span", [Int(0), Int(n)]), Enum("Word", TK.index("Word"), [Enum("None", 0, [])])])])

        it = Interp(raw, MODELS, ctx, {r"^<(Lrc|Rc|Arc)<dyn [\w:]*Parser> as [\w:]*Parser>::parse$|^<dyn [\w:]*Parser as [\w:]*Parser>::parse$": inner_parse},
                    enums=enums)
        it.harper_types = it.harper_types | load_type_names(os.path.join(repo_root, "harper-comments", "src"))
        wrapper = Adt(which, [BoxRef(Cell(Adt("StubInnerParser", [])))])
        out = None
        try:
            out = it.call_fn(fn, [Ref(Cell(wrapper)), SliceRef(src, 0, L)])
        except (PathEnd, Infeasible):
            pass
        result["functions"] |= it.called
        for msg, where, model in it.panics:
            if model is not None and ctx.ex.solver.check(*nice) == z3.sat:
                model = ctx.ex.solver.model()
            result["panics"].append({"msg": msg, "where": where, "text": text(model)})
        if out is None:
            return
        toks = [c.v for c in out.elems]
        words = [t for t in toks if t.fields[1].variant == "Word"]
        claims = []
        want = [s for s in seen if s[1] > s[0]]
        if which != "JsDoc" and len(words) != len(want):
            claims.append((z3.BoolVal(False), "a token of the inner parser was lost or invented"))
        for t, (lo, hi) in zip(words, want):
            claims.append((z3.And(t.fields[0].fields[0].t == lo, t.fields[0].fields[1].t == hi),
                           "a token is not located at the characters the inner parser saw"))
        prev_end = None
        for t in toks:
            s_, e_ = t.fields[0].fields[0].t, t.fields[0].fields[1].t
            claims.append((z3.And(z3.ULE(s_, e_), z3.ULE(e_, L)), "a token lies outside the comment"))
            if t.fields[1].variant == "Newline":
                s_c = z3.simplify(s_)
                ok_nl = z3.is_bv_value(s_c) and s_c.as_long() < L
                claims.append((z3.And(e_ == s_ + 1, chars[s_c.as_long()] == 10) if ok_nl else z3.BoolVal(False),
                               "an inserted Newline token does not sit on a line feed"))
            if prev_end is not None:
                claims.append((z3.ULE(prev_end, s_), "tokens are out of order or overlap"))
            prev_end = e_
        if skeleton is not None and which == "Unit":
            # code fences (reference): a line whose text, after leading comment initiators / blanks, starts with three
            # backticks toggles the fence; a fully symbolic line of three characters is a fence iff all three are backticks.
            # Nothing on a non-fence line that lies inside a fence may be handed to the inner parser; a plain-letter line
            # outside every fence must be.
            lines, pos = [], 0
            for ln in skeleton.split("\n"):
                lines.append((pos, pos + len(ln), ln))
                pos += len(ln) + 1
            fences = []
            for lo, hi, ln in lines:
                if "?" not in ln:
                    fences.append(z3.BoolVal(ln.lstrip("/*!# \t").startswith("```")))
                elif ln == "???":
                    fences.append(z3.And(*[chars[lo + j] == 96 for j in range(3)]))
                else:
                    raise Unsupported("skeleton lines must be literal or exactly `???`")
            inside = z3.BoolVal(False)
            for k, (lo, hi, ln) in enumerate(lines):
                offered = [s_ for s_ in seen if s_[1] > s_[0] and lo <= s_[0] < max(hi, lo + 1)]
                if offered:
                    claims.append((z3.Or(fences[k], z3.Not(inside)), "text inside a code fence was handed to the prose parser"))
                elif ln.isalpha():
                    claims.append((inside, "a prose line outside every code fence was not handed to the prose parser"))
                inside = z3.Xor(inside, fences[k])
        for claim, what in claims:
            ok, model = ctx.valid(claim, nice)
            if not ok:
                result["violations"].append({"what": what, "text": text(model)})
                break

    t0 = time.time()
    ex.run(body)
    result.update(paths=ex.stats["paths"], solver_queries=ex.stats["queries"], solver_s=round(ex.stats["solver_s"], 3),
                  forks=ex.stats["forks"], wall_s=round(time.time() - t0, 2), functions=sorted(result["functions"]))
    result["violations"] = result["violations"][:5]
    result["panics"] = result["panics"][:5]
    return result


if __name__ == "__main__":
    try:
        r = run(sys.argv[1], sys.argv[2], sys.argv[3], sys.argv[4], sys.argv[5])
        r["status"] = "violated" if (r["violations"] or r["panics"]) else "holds"
    except Unsupported as e:
        r = {"status": "unsupported", "why": str(e)}
    print(json.dumps(r))

//! Native replay of solver counterexamples against the real harper-core (ordinary build, no Kani).
//! Exit 0: property holds on this input; 1: property violated (details on stdout); 101: panic.
use harper_core::linting::{Lint, LintKind};
use harper_core::{remove_overlaps, Span};

fn main() {
    let args: Vec<String> = std::env::args().collect();
    match args.get(1).map(|s| s.as_str()) {
        Some("remove-overlaps") => std::process::exit(remove_overlaps_case(&args[2])),
        Some("tiling") => std::process::exit(tiling_case(&args[2])),
        Some("remove-overlaps-raw") => {
            // prints the identity tags of the surviving lints, in output order (translation validation of mirsym)
            let mut v = parse_lints(args.get(2).map(|s| s.as_str()).unwrap_or(""));
            remove_overlaps(&mut v);
            let tags: Vec<String> = v.iter().map(|l| l.priority.to_string()).collect();
            println!("{}", tags.join(" "));
        }
        _ => {
            eprintln!("usage: replay_native remove-overlaps 's,e;s,e;...'");
            std::process::exit(2)
        }
    }
}

/// C02 (plain-English mode): after `Document::new` the tokens tile the text exactly - no character
/// lost or duplicated by any condensing step - and a number token with an ordinal suffix ends in it.
fn tiling_case(text: &str) -> i32 {
    use harper_core::{Document, TokenKind};
    let doc = Document::new_plain_english_curated(text);
    let len = text.chars().count();
    let chars: Vec<char> = text.chars().collect();
    let mut bad = 0;
    let mut cursor = 0;
    for (i, t) in doc.get_tokens().iter().enumerate() {
        if t.span.start != cursor {
            println!("VIOLATED: token {i} {:?} starts at {} but the previous token ended at {cursor} (characters lost or duplicated)", t.kind, t.span.start);
            bad = 1;
        }
        if t.span.end <= t.span.start || t.span.end > len {
            println!("VIOLATED: token {i} has span {:?} in a text of {len} chars", t.span);
            bad = 1;
        }
        if let TokenKind::Number(n) = &t.kind {
            if let Some(sfx) = n.suffix {
                let want = sfx.to_chars();
                let got: Vec<char> = chars[t.span.end.saturating_sub(2).min(len)..t.span.end.min(len)].iter().map(|c| c.to_ascii_lowercase()).collect();
                let digits_then_suffix = chars[t.span.start.min(len)..t.span.end.saturating_sub(2).min(len)].iter().all(|c| !c.is_alphabetic());
                if got != want || !digits_then_suffix {
                    println!("VIOLATED: number token {i} {:?} carries suffix {:?} but its text is {:?}", t.span, sfx, chars[t.span.start.min(len)..t.span.end.min(len)].iter().collect::<String>());
                    bad = 1;
                }
            }
        }
        cursor = t.span.end;
    }
    if cursor != len {
        println!("VIOLATED: the tokens end at {cursor} but the text has {len} chars (characters lost)");
        bad = 1;
    }
    println!("text {:?} -> {} tokens: {:?}", text, doc.get_tokens().len(), doc.get_tokens().iter().map(|t| (t.span.start, t.span.end)).collect::<Vec<_>>());
    bad
}

fn parse_lints(spec: &str) -> Vec<Lint> {
    spec.split(';')
        .filter(|p| !p.is_empty())
        .enumerate()
        .map(|(i, p)| {
            let (s, e) = p.split_once(',').expect("s,e");
            Lint {
                span: Span { start: s.trim().parse().unwrap(), end: e.trim().parse().unwrap() },
                lint_kind: LintKind::Miscellaneous,
                suggestions: vec![],
                message: String::new(),
                priority: i as u8,
            }
        })
        .collect()
}

/// C13: sub-list, conflict-free, every dropped lint starts inside a kept one.
fn remove_overlaps_case(spec: &str) -> i32 {
    let spans: Vec<Span> = spec
        .split(';')
        .filter(|p| !p.is_empty())
        .map(|p| {
            let (s, e) = p.split_once(',').expect("s,e");
            Span { start: s.trim().parse().unwrap(), end: e.trim().parse().unwrap() }
        })
        .collect();
    let n = spans.len();
    let mut v: Vec<Lint> = spans
        .iter()
        .enumerate()
        .map(|(i, s)| Lint { span: *s, lint_kind: LintKind::Miscellaneous, suggestions: vec![], message: String::new(), priority: i as u8 })
        .collect();
    remove_overlaps(&mut v);
    let mut bad = 0;
    let mut kept = vec![false; n];
    for l in &v {
        let t = l.priority as usize;
        if t >= n || kept[t] {
            println!("VIOLATED: output is not a sub-list of the input (tag {t})");
            bad = 1;
            continue;
        }
        kept[t] = true;
        if l.span != spans[t] {
            println!("VIOLATED: lint {t} was altered: {:?} -> {:?}", spans[t], l.span);
            bad = 1;
        }
    }
    for a in 0..n {
        for b in a + 1..n {
            if kept[a] && kept[b] && spans[a].start < spans[b].end && spans[b].start < spans[a].end {
                println!("VIOLATED: kept lints {a} {:?} and {b} {:?} cover a common character", spans[a], spans[b]);
                bad = 1;
            }
        }
    }
    for d in 0..n {
        if !kept[d] && !(0..n).any(|k| kept[k] && spans[k].start <= spans[d].start && spans[d].start < spans[k].end) {
            println!("VIOLATED: dropped lint {d} {:?} does not start inside a kept lint", spans[d]);
            bad = 1;
        }
    }
    println!("input {:?} -> kept {:?}", spans.iter().map(|s| (s.start, s.end)).collect::<Vec<_>>(), kept);
    bad
}

//! Native replay of solver counterexamples against the real harper-core (ordinary build, no Kani).
//! Exit 0: property holds on this input; 1: property violated (details on stdout); 101: panic.
use harper_core::linting::{Lint, LintKind};
use harper_core::{remove_overlaps, Span};

fn main() {
    let args: Vec<String> = std::env::args().collect();
    match args.get(1).map(|s| s.as_str()) {
        Some("remove-overlaps") => std::process::exit(remove_overlaps_case(&args[2])),
        Some("tiling") => std::process::exit(tiling_case(&args[2])),
        Some("lint-plain") => std::process::exit(lint_plain_case(&args[2])),
        Some("split") => std::process::exit(split_case(&args[2], &args[3])),
        Some("cache") => std::process::exit(cache_case(&args[2..])),
        Some("locality") => std::process::exit(locality_case(&args[2], &args[3])),
        Some("config") => std::process::exit(config_case(&args[2..])),
        Some("comment") => std::process::exit(comment_case(&args[2], &args[3])),
        Some("markdown") => std::process::exit(markdown_case(&args[2], &args[3], &args[4])),
        Some("rule-doc") => std::process::exit(rule_doc_case(&args[2], args.get(3).map(|s| s.as_str()).unwrap_or(""))),
        Some("comment-fence") => std::process::exit(comment_fence_case(&args[2])),
        Some("doc-locality") => std::process::exit(doc_locality_case(&args[2], args[3].parse().unwrap())),
        Some("ignore") => std::process::exit(ignore_case(&args[2], &args[3])),
        Some("title") => std::process::exit(title_case(&args[2])),
        Some("mask") => std::process::exit(mask_case(&args[2], &args[3], &args[4])),
        Some("spell") => std::process::exit(spell_case(&args[2..])),
        Some("dict") => std::process::exit(dict_case(&args[2..])),
        Some("spell-cache") => std::process::exit(spell_cache_case(&args[2], &args[3])),
        Some("remove-overlaps-raw") => {
            // prints the identity tags of the surviving lints, in output order (translation validation of mirsym)
            let mut v = parse_lints(args.get(2).map(|s| s.as_str()).unwrap_or(""));
            remove_overlaps(&mut v);
            let tags: Vec<String> = v.iter().map(|l| l.priority.to_string()).collect();
            println!("{}", tags.join(" "));
        }
        _ => {
            eprintln!("usage: replay_native remove-overlaps 's,e;s,e;...'");
            std::process::exit(2)
        }
    }
}

/// C02 (plain-English mode): after `Document::new` the tokens tile the text exactly - no character
/// lost or duplicated by any condensing step - and a number token with an ordinal suffix ends in it.
fn tiling_case(text: &str) -> i32 {
    use harper_core::{Document, TokenKind};
    let doc = Document::new_plain_english_curated(text);
    let len = text.chars().count();
    let chars: Vec<char> = text.chars().collect();
    let mut bad = 0;
    let mut cursor = 0;
    for (i, t) in doc.get_tokens().iter().enumerate() {
        if t.span.start != cursor {
            println!("VIOLATED: token {i} {:?} starts at {} but the previous token ended at {cursor} (characters lost or duplicated)", t.kind, t.span.start);
            bad = 1;
        }
        if t.span.end <= t.span.start || t.span.end > len {
            println!("VIOLATED: token {i} has span {:?} in a text of {len} chars", t.span);
            bad = 1;
        }
        if let TokenKind::Number(n) = &t.kind {
            if n.radix == 16 {
                let txt: String = chars[t.span.start.min(len)..t.span.end.min(len)].iter().collect();
                let denotes = txt.strip_prefix("0x").and_then(|d| u64::from_str_radix(d, 16).ok()).map(|v| v as f64);
                if denotes != Some(n.value.0) {
                    println!("VIOLATED: hexadecimal number token {i} covers {txt:?} but carries the value {}", n.value.0);
                    bad = 1;
                }
            }
            if let Some(sfx) = n.suffix {
                let want = sfx.to_chars();
                let got: Vec<char> = chars[t.span.end.saturating_sub(2).min(len)..t.span.end.min(len)].iter().map(|c| c.to_ascii_lowercase()).collect();
                let digits_then_suffix = chars[t.span.start.min(len)..t.span.end.saturating_sub(2).min(len)].iter().all(|c| !c.is_alphabetic());
                if got != want || !digits_then_suffix {
                    println!("VIOLATED: number token {i} {:?} carries suffix {:?} but its text is {:?}", t.span, sfx, chars[t.span.start.min(len)..t.span.end.min(len)].iter().collect::<String>());
                    bad = 1;
                }
            }
        }
        if let TokenKind::Punctuation(harper_core::Punctuation::Quote(q)) = &t.kind {
            if let Some(j) = q.twin_loc {
                let back = match doc.get_tokens().get(j).map(|o| &o.kind) {
                    Some(TokenKind::Punctuation(harper_core::Punctuation::Quote(o))) => o.twin_loc,
                    _ => None,
                };
                if j == i || back != Some(i) {
                    println!("VIOLATED: quote token {i} points at token {j} as its twin, which is not a quote pointing back");
                    bad = 1;
                }
            }
        }
        cursor = t.span.end;
    }
    if cursor != len {
        println!("VIOLATED: the tokens end at {cursor} but the text has {len} chars (characters lost)");
        bad = 1;
    }
    // every maximal run of decimal digits (not part of a word, decimal or hex literal) is covered by ONE number token that starts at
    // the run and ends at its end (or two characters later, when an ordinal suffix was attached)
    {
        let mut i = 0;
        while i < len {
            if chars[i].is_ascii_digit() && (i == 0 || !(chars[i - 1].is_alphanumeric() || ".,_-+@:/".contains(chars[i - 1]))) {
                let mut j = i;
                while j < len && chars[j].is_ascii_digit() { j += 1; }
                let sfx_follows = j + 2 <= len && ["st", "nd", "rd", "th"].contains(&chars[j..j + 2].iter().map(|c| c.to_ascii_lowercase()).collect::<String>().as_str())
                    && (j + 2 == len || !(chars[j + 2].is_alphanumeric() || ".,_-+@:/'".contains(chars[j + 2])));
                let plain = j == len || sfx_follows || !(chars[j].is_alphanumeric() || ".,_-+@:/'".contains(chars[j]));
                if plain {
                    let ok = doc.get_tokens().iter().any(|t| t.span.start == i && (t.span.end == j || t.span.end == j + 2) && matches!(t.kind, TokenKind::Number(_)));
                    if !ok {
                        println!("VIOLATED: the {} digits at {i}..{j} of {text:?} are not one number token", j - i);
                        bad = 1;
                    }
                }
                i = j;
            } else { i += 1; }
        }
    }
    // every plain integer directly followed by exactly an ordinal suffix is ONE number token carrying that suffix
    let mut i = 0;
    while i < len {
        if chars[i].is_ascii_digit() && (i == 0 || !(chars[i - 1].is_alphanumeric() || chars[i - 1] == '.' || chars[i - 1] == ',')) {
            let mut j = i;
            while j < len && chars[j].is_ascii_digit() { j += 1; }
            if j + 2 <= len && (j + 2 == len || !(chars[j + 2].is_alphanumeric() || chars[j + 2] == '\'' || chars[j + 2] == '.' || chars[j + 2] == '@')) && j - i <= 15 {
                let sfx: String = chars[j..j + 2].iter().map(|c| c.to_ascii_lowercase()).collect();
                if ["st", "nd", "rd", "th"].contains(&sfx.as_str()) {
                    let ok = doc.get_tokens().iter().any(|t| t.span.start == i && t.span.end == j + 2 && matches!(&t.kind, TokenKind::Number(n) if n.suffix.map(|s| s.to_chars().iter().collect::<String>()) == Some(sfx.clone())));
                    if !ok {
                        println!("VIOLATED: {:?} at {i}..{} is a number with the ordinal suffix {sfx:?} but is not one number token carrying that suffix", chars[i..j + 2].iter().collect::<String>(), j + 2);
                        bad = 1;
                    }
                }
            }
            i = j;
        } else { i += 1; }
    }
    println!("text {:?} -> {} tokens: {:?}", text, doc.get_tokens().len(), doc.get_tokens().iter().map(|t| (t.span.start, t.span.end)).collect::<Vec<_>>());
    bad
}

/// C01: turning a text into a plain-English document and linting it with the curated rule set returns normally.
fn lint_plain_case(text: &str) -> i32 {
    use harper_core::linting::{LintGroup, Linter};
    use harper_core::{Dialect, Document, FstDictionary};
    let doc = Document::new_plain_english_curated(text);
    let mut group = LintGroup::new_curated(FstDictionary::curated(), Dialect::American);
    let lints = group.lint(&doc);
    let len = text.chars().count();
    let mut bad = 0;
    for l in &lints {
        if l.span.start > l.span.end || l.span.end > len {
            println!("VIOLATED: lint span {:?} outside the text of {len} chars", l.span);
            bad = 1;
        }
    }
    println!("text {:?}: {} tokens, {} lints", text, doc.get_tokens().len(), lints.len());
    bad
}

/// C12 (structural): iter_chunks / iter_sentences / iter_paragraphs partition the token list.
fn split_case(how: &str, kinds: &str) -> i32 {
    use harper_core::{Punctuation, Quote, Token, TokenKind, TokenStringExt};
    let mk = |k: &str| -> TokenKind {
        match k {
            "word" => TokenKind::Word(None),
            "space" => TokenKind::Space(1),
            "period" => TokenKind::Punctuation(Punctuation::Period),
            "comma" => TokenKind::Punctuation(Punctuation::Comma),
            "colon" => TokenKind::Punctuation(Punctuation::Colon),
            "question" => TokenKind::Punctuation(Punctuation::Question),
            "bang" => TokenKind::Punctuation(Punctuation::Bang),
            "hyphen" => TokenKind::Punctuation(Punctuation::Hyphen),
            "quote" => TokenKind::Punctuation(Punctuation::Quote(Quote { twin_loc: None })),
            "pbreak" => TokenKind::ParagraphBreak,
            other => panic!("unknown kind {other}"),
        }
    };
    let names: Vec<&str> = kinds.split(',').filter(|s| !s.is_empty()).collect();
    let toks: Vec<Token> = names.iter().enumerate().map(|(i, k)| Token { span: Span { start: i, end: i + 1 }, kind: mk(k) }).collect();
    let term: &[&str] = match how {
        "paragraphs" => &["pbreak"],
        "sentences" => &["pbreak", "period", "question", "bang"],
        _ => &["pbreak", "period", "question", "bang", "comma", "quote", "colon"],
    };
    let pieces: Vec<&[Token]> = match how {
        "paragraphs" => toks.iter_paragraphs().collect(),
        "sentences" => toks.iter_sentences().collect(),
        _ => toks.iter_chunks().collect(),
    };
    let n = toks.len();
    let mut next = 0;
    let mut bad = 0;
    for (idx, p) in pieces.iter().enumerate() {
        if p.is_empty() {
            if n != 0 {
                println!("VIOLATED: piece {idx} is empty");
                bad = 1;
            }
            continue;
        }
        if p[0].span.start != next {
            println!("VIOLATED: piece {idx} starts at token {} but {next} was expected", p[0].span.start);
            bad = 1;
        }
        for t in &p[..p.len() - 1] {
            if term.contains(&names[t.span.start]) {
                println!("VIOLATED: piece {idx} contains a terminator before its end");
                bad = 1;
            }
        }
        next = p[p.len() - 1].span.end;
        if next < n && !term.contains(&names[next - 1]) {
            println!("VIOLATED: piece {idx} ends without a terminator although tokens follow");
            bad = 1;
        }
    }
    if next != n {
        println!("VIOLATED: the pieces cover tokens 0..{next} of {n}");
        bad = 1;
    }
    println!("{how} of {names:?}: {:?}", pieces.iter().map(|p| p.len()).collect::<Vec<_>>());
    bad
}

/// C05/C03/C12 kernel: a long-lived LintGroup (clause cache warm from earlier documents, configuration toggled
/// in between) must return exactly what a fresh LintGroup returns. args: doc1 doc2 [q_enabled_for_doc2 = 0|1]
fn cache_case(args: &[String]) -> i32 {
    use harper_core::linting::{LintGroup, Linter, PatternLinter};
    use harper_core::patterns::Pattern;
    use harper_core::{Document, Token};

    struct Rule {
        pat: Box<dyn Pattern>,
        tag: u8,
    }
    impl PatternLinter for Rule {
        fn pattern(&self) -> &dyn Pattern {
            self.pat.as_ref()
        }
        fn match_to_lint(&self, toks: &[Token], _src: &[char]) -> Option<Lint> {
            Some(Lint { span: toks[0].span, lint_kind: LintKind::Miscellaneous, suggestions: vec![], message: String::new(), priority: self.tag })
        }
        fn description(&self) -> &str {
            "stub"
        }
    }
    // Q: every word starting with 'q'; W: every word starting with 'w' (both functions of the clause text only)
    fn starts_with(c: char) -> Box<dyn Pattern> {
        Box::new(move |t: &Token, src: &[char]| t.kind.is_word() && t.span.get_content(src).first() == Some(&c))
    }
    fn group(q: bool) -> LintGroup {
        let mut g = LintGroup::empty();
        g.add_pattern_linter("Q", Box::new(Rule { pat: starts_with('q'), tag: 1 }));
        g.add_pattern_linter("W", Box::new(Rule { pat: starts_with('w'), tag: 2 }));
        g.config.set_rule_enabled("Q", q);
        g.config.set_rule_enabled("W", true);
        g
    }
    if args.first().map(|s| s.as_str()) == Some("many") {
        // many <n> <doc1> <doc2> <cfg1> <cfg2>: n pattern rules R000.. (each flags every word), cfg = comma-separated names that are on
        let n: usize = args[1].parse().unwrap();
        let on = |spec: &str| -> Vec<String> { spec.split(',').filter(|x| !x.is_empty()).map(|x| x.to_string()).collect() };
        let mk = |enabled: &[String]| {
            let mut g = LintGroup::empty();
            for i in 0..n {
                let name = format!("R{i:03}");
                g.add_pattern_linter(&name, Box::new(Rule { pat: Box::new(|t: &Token, _src: &[char]| t.kind.is_word()), tag: (10 + i) as u8 }));
                g.config.set_rule_enabled(&name, enabled.contains(&name));
            }
            g
        };
        let (d1, d2) = (Document::new_plain_english_curated(&args[2]), Document::new_plain_english_curated(&args[3]));
        let (c1, c2) = (on(&args[4]), on(&args[5]));
        let mut long_lived = mk(&c1);
        let _ = long_lived.lint(&d1);
        for i in 0..n { let name = format!("R{i:03}"); long_lived.config.set_rule_enabled(&name, c2.contains(&name)); }
        let got = long_lived.lint(&d2);
        let want = mk(&c2).lint(&d2);
        let key = |v: &Vec<Lint>| v.iter().map(|l| (l.span.start, l.span.end, l.priority)).collect::<Vec<_>>();
        println!("{n} rules; after {:?} under {c1:?}, linting {:?} under {c2:?} gives {:?}; a fresh linter gives {:?}", args[2], args[3], key(&got), key(&want));
        if key(&got) != key(&want) { println!("VIOLATED: the long-lived linter disagrees with a fresh one"); return 1; }
        return 0;
    }
    let d1 = Document::new_plain_english_curated(&args[0]);
    let d2 = Document::new_plain_english_curated(&args[1]);
    let q2 = args.get(2).map(|s| s != "0").unwrap_or(true);
    let mut long_lived = group(true);
    let _ = long_lived.lint(&d1);
    long_lived.config.set_rule_enabled("Q", q2);
    let got = long_lived.lint(&d2);
    let want = group(q2).lint(&d2);
    let key = |v: &Vec<Lint>| v.iter().map(|l| (l.span.start, l.span.end, l.priority)).collect::<Vec<_>>();
    println!("after {:?}, linting {:?} (Q enabled: {q2}) gives {:?}; a fresh linter gives {:?}", args[0], args[1], key(&got), key(&want));
    let len2 = args[1].chars().count();
    let mut bad = 0;
    if key(&got) != key(&want) {
        println!("VIOLATED: the long-lived linter disagrees with a fresh one");
        bad = 1;
    }
    if got.iter().any(|l| l.span.start > l.span.end || l.span.end > len2) {
        println!("VIOLATED: a lint span lies outside the text");
        bad = 1;
    }
    // independent of any cache: rule Q flags words starting with 'q', rule W words starting with 'w' - whatever a linter returns must
    // sit exactly on such a word
    let src2: Vec<char> = args[1].chars().collect();
    for (who, lints) in [("long-lived", &got), ("fresh", &want)] {
        for l in lints.iter() {
            let want_c = if l.priority == 1 { 'q' } else { 'w' };
            let on_word = d2.get_tokens().iter().any(|t| t.kind.is_word() && t.span == l.span);
            if l.span.end > src2.len() || !on_word || src2[l.span.start] != want_c {
                println!("VIOLATED: the {who} linter reports {:?} (rule tag {}) on {:?}, which is not a word starting with {want_c:?}", l.span, l.priority, args[1]);
                bad = 1;
            }
        }
    }
    bad
}

/// C12 (lexing kernel): the tokens of a paragraph do not depend on the text after the paragraph break.
fn locality_case(p: &str, d: &str) -> i32 {
    use harper_core::parsers::{Parser, PlainEnglish};
    let alone: Vec<char> = format!("{p}\n\n").chars().collect();
    let both: Vec<char> = format!("{p}\n\n{d}").chars().collect();
    let ta = PlainEnglish.parse(&alone);
    let tb = PlainEnglish.parse(&both);
    let plen = p.chars().count();
    let key = |v: &Vec<harper_core::Token>| {
        v.iter().filter(|t| t.span.start < plen).map(|t| (t.span.start, t.span.end, format!("{:?}", t.kind))).collect::<Vec<_>>()
    };
    println!("paragraph alone: {:?}", key(&ta));
    println!("with {:?} after the break: {:?}", d, key(&tb));
    if key(&ta) != key(&tb) {
        println!("VIOLATED: the paragraph is tokenised differently when other text follows the paragraph break");
        return 1;
    }
    0
}

/// C11 kernel: LintGroupConfig through its public API. args: scenario cfg0 [cfg1] [key] [value]; cfg = "A=true,B=none" (absent keys omitted)
fn config_case(args: &[String]) -> i32 {
    use harper_core::linting::LintGroupConfig;
    use std::hash::{DefaultHasher, Hash, Hasher};
    fn build(spec: &str) -> LintGroupConfig {
        let mut c = LintGroupConfig::default();
        let mut nones = vec![];
        for part in spec.split(',').filter(|s| !s.is_empty()) {
            let (k, v) = part.split_once('=').unwrap();
            match v {
                "true" => c.set_rule_enabled(k, true),
                "false" => c.set_rule_enabled(k, false),
                "none" => nones.push(k.to_string()),
                _ => {}
            }
        }
        if !nones.is_empty() {
            // a present-but-None entry can only be produced by clear(): build it separately and merge the explicit ones on top
            let mut base = LintGroupConfig::default();
            for k in &nones {
                base.set_rule_enabled(k, true);
            }
            base.clear();
            base.merge_from(&mut c);
            return base;
        }
        c
    }
    let want_on = |spec: &str, k: &str| spec.split(',').any(|p| p == format!("{k}=true"));
    let scenario = args[0].as_str();
    let mut bad = 0;
    match scenario {
        "query" => {
            let c = build(&args[1]);
            for k in ["A", "B", "Z"] {
                if c.is_rule_enabled(k) != want_on(&args[1], k) {
                    println!("VIOLATED: is_rule_enabled({k}) = {} for {:?}", c.is_rule_enabled(k), args[1]);
                    bad = 1;
                }
            }
        }
        "set" => {
            let mut c = build(&args[1]);
            let (k, v) = (args[2].as_str(), args[3] == "true");
            c.set_rule_enabled(k, v);
            for other in ["A", "B", "Z"] {
                let want = if other == k { v } else { want_on(&args[1], other) };
                if c.is_rule_enabled(other) != want {
                    println!("VIOLATED: after set_rule_enabled({k}, {v}) rule {other} is {}", c.is_rule_enabled(other));
                    bad = 1;
                }
            }
            c.unset_rule_enabled(k);
            if c.is_rule_enabled(k) {
                println!("VIOLATED: unset_rule_enabled({k}) left the rule on");
                bad = 1;
            }
        }
        "merge" | "fill" => {
            let mut a = build(&args[1]);
            let mut b = build(&args[2]);
            if scenario == "merge" {
                a.merge_from(&mut b);
                for k in ["A", "B"] {
                    let explicit = args[2].split(',').find(|p| p.starts_with(&format!("{k}=")) && !p.ends_with("none"));
                    let want = match explicit { Some(p) => p.ends_with("true"), None => want_on(&args[1], k) };
                    if a.is_rule_enabled(k) != want {
                        println!("VIOLATED: after merge_from rule {k} is {} (expected {want})", a.is_rule_enabled(k));
                        bad = 1;
                    }
                    if b.is_rule_enabled(k) {
                        println!("VIOLATED: merge_from left rule {k} on in the other configuration");
                        bad = 1;
                    }
                }
            } else {
                // the curated table cannot be stubbed natively: the user's explicit choices must survive fill_with_curated
                a.fill_with_curated();
                for k in ["A", "B"] {
                    if let Some(p) = args[1].split(',').find(|p| p.starts_with(&format!("{k}=")) && !p.ends_with("none")) {
                        if a.is_rule_enabled(k) != p.ends_with("true") {
                            println!("VIOLATED: fill_with_curated overrode the user's choice for {k}");
                            bad = 1;
                        }
                    }
                }
            }
        }
        "hash" => {
            let (a, b) = (build(&args[1]), build(&args[2]));
            let h = |c: &LintGroupConfig| { let mut s = DefaultHasher::new(); c.hash(&mut s); s.finish() };
            let differ = ["A", "B"].iter().any(|k| a.is_rule_enabled(k) != b.is_rule_enabled(k));
            println!("hash({:?}) = {:x}, hash({:?}) = {:x}", args[1], h(&a), args[2], h(&b));
            if differ && h(&a) == h(&b) {
                println!("VIOLATED: configurations that enable different rules hash identically");
                bad = 1;
            }
        }
        _ => return 2,
    }
    bad
}

/// C01/C04 kernel: a source file consisting of the given comment text (tried with a few comment-leader decorations,
/// since the symbolic counterexample is the text the wrapper saw, not a whole file) is turned into a document without a
/// panic and with all tokens inside the file.
fn comment_case(wrapper: &str, text: &str) -> i32 {
    use harper_core::Document;
    let lang = match wrapper { "Go" => "go", "JsDoc" => "javascript", _ => "rust" };
    let mut bad = 0;
    for file in [text.to_string(), format!("/{text}"), format!("//{text}"), format!("{text}//"), format!("/{text}//"), format!("//{text}//"), format!("/*{text}*/")] {
        let parser = harper_comments::CommentParser::new_from_language_id(lang, Default::default()).unwrap();
        let res = std::panic::catch_unwind(std::panic::AssertUnwindSafe(|| {
            let doc = Document::new_curated(&file, &parser);
            let len = file.chars().count();
            doc.get_tokens().iter().all(|t| t.span.start <= t.span.end && t.span.end <= len)
        }));
        match res {
            Err(_) => { println!("VIOLATED: panic while parsing the {lang} file {:?}", file); return 101; }
            Ok(false) => { println!("VIOLATED: token outside the file for {:?}", file); bad = 1; }
            Ok(true) => {}
        }
    }
    bad
}

fn parse_lints(spec: &str) -> Vec<Lint> {
    spec.split(';')
        .filter(|p| !p.is_empty())
        .enumerate()
        .map(|(i, p)| {
            let (s, e) = p.split_once(',').expect("s,e");
            Lint {
                span: Span { start: s.trim().parse().unwrap(), end: e.trim().parse().unwrap() },
                lint_kind: LintKind::Miscellaneous,
                suggestions: vec![],
                message: String::new(),
                priority: i as u8,
            }
        })
        .collect()
}

/// C13: sub-list, conflict-free, every dropped lint starts inside a kept one.
fn remove_overlaps_case(spec: &str) -> i32 {
    let spans: Vec<Span> = spec
        .split(';')
        .filter(|p| !p.is_empty())
        .map(|p| {
            let (s, e) = p.split_once(',').expect("s,e");
            Span { start: s.trim().parse().unwrap(), end: e.trim().parse().unwrap() }
        })
        .collect();
    let n = spans.len();
    let mut v: Vec<Lint> = spans
        .iter()
        .enumerate()
        .map(|(i, s)| Lint { span: *s, lint_kind: LintKind::Miscellaneous, suggestions: vec![], message: String::new(), priority: i as u8 })
        .collect();
    remove_overlaps(&mut v);
    let mut bad = 0;
    let mut kept = vec![false; n];
    for l in &v {
        let t = l.priority as usize;
        if t >= n || kept[t] {
            println!("VIOLATED: output is not a sub-list of the input (tag {t})");
            bad = 1;
            continue;
        }
        kept[t] = true;
        if l.span != spans[t] {
            println!("VIOLATED: lint {t} was altered: {:?} -> {:?}", spans[t], l.span);
            bad = 1;
        }
    }
    for a in 0..n {
        for b in a + 1..n {
            if kept[a] && kept[b] && spans[a].start < spans[b].end && spans[b].start < spans[a].end {
                println!("VIOLATED: kept lints {a} {:?} and {b} {:?} cover a common character", spans[a], spans[b]);
                bad = 1;
            }
        }
    }
    for d in 0..n {
        if !kept[d] && !(0..n).any(|k| kept[k] && spans[k].start <= spans[d].start && spans[d].start < spans[k].end) {
            println!("VIOLATED: dropped lint {d} {:?} does not start inside a kept lint", spans[d]);
            bad = 1;
        }
    }
    println!("input {:?} -> kept {:?}", spans.iter().map(|s| (s.start, s.end)).collect::<Vec<_>>(), kept);
    bad
}


/// A dictionary that knows no word and whose fuzzy matcher answers every query with exactly the queried word
/// (distance 0): the suggestions for a word are then a function of that word as written - the same contract the
/// symbolic kernel gives its stub.
struct EchoDictionary;

fn leaked_metadata() -> &'static harper_core::WordMetadata {
    use std::sync::OnceLock;
    static M: OnceLock<harper_core::WordMetadata> = OnceLock::new();
    M.get_or_init(harper_core::WordMetadata::default)
}

impl harper_core::Dictionary for EchoDictionary {
    fn contains_word(&self, _word: &[char]) -> bool {
        false
    }
    fn contains_word_str(&self, _word: &str) -> bool {
        false
    }
    fn contains_exact_word(&self, _word: &[char]) -> bool {
        false
    }
    fn contains_exact_word_str(&self, _word: &str) -> bool {
        false
    }
    fn fuzzy_match(&self, word: &[char], _max_distance: u8, _max_results: usize) -> Vec<harper_core::spell::FuzzyMatchResult> {
        let w: &'static [char] = Box::leak(word.to_vec().into_boxed_slice());
        vec![harper_core::spell::FuzzyMatchResult { word: w, edit_distance: 0, metadata: leaked_metadata() }]
    }
    fn fuzzy_match_str(&self, word: &str, max_distance: u8, max_results: usize) -> Vec<harper_core::spell::FuzzyMatchResult> {
        let chars: Vec<char> = word.chars().collect();
        self.fuzzy_match(&chars, max_distance, max_results)
    }
    fn get_correct_capitalization_of(&self, _word: &[char]) -> Option<&'_ [char]> {
        None
    }
    fn get_word_metadata(&self, _word: &[char]) -> Option<&harper_core::WordMetadata> {
        Some(leaked_metadata())
    }
    fn get_word_metadata_str(&self, _word: &str) -> Option<&harper_core::WordMetadata> {
        Some(leaked_metadata())
    }
    fn words_iter(&self) -> Box<dyn Iterator<Item = &'_ [char]> + Send + '_> {
        Box::new(std::iter::empty())
    }
    fn word_count(&self) -> usize {
        0
    }
    fn get_word_from_id(&self, _id: &harper_core::WordId) -> Option<&[char]> {
        None
    }
}

/// C05 (spelling-suggestion cache): a long-lived SpellCheck that has looked up `w1` gives, for a document
/// consisting of `w2`, exactly the lints of a fresh SpellCheck.
fn spell_cache_case(w1: &str, w2: &str) -> i32 {
    use harper_core::linting::{Linter, SpellCheck};
    use harper_core::{Dialect, Document};
    let d1 = Document::new_plain_english(w1, &EchoDictionary);
    let d2 = Document::new_plain_english(w2, &EchoDictionary);
    let mut warm = SpellCheck::new(EchoDictionary, Dialect::American);
    let _ = warm.lint(&d1);
    let got = warm.lint(&d2);
    let mut fresh = SpellCheck::new(EchoDictionary, Dialect::American);
    let want = fresh.lint(&d2);
    println!("after {:?}: {:?} -> {:?}", w1, w2, got.iter().map(|l| (l.span, &l.suggestions, &l.message)).collect::<Vec<_>>());
    if got != want {
        println!("VIOLATED: a SpellCheck that saw {:?} first reports {:?} for {:?}; a fresh one reports {:?}", w1,
                 got.iter().map(|l| (l.span, &l.suggestions, &l.message)).collect::<Vec<_>>(), w2,
                 want.iter().map(|l| (l.span, &l.suggestions, &l.message)).collect::<Vec<_>>());
        return 1;
    }
    0
}


/// C02 (Markdown front-end): a Markdown text that realises one inline construct (`kind`) whose source text is made of
/// the characters `x` - repeated so that byte and char counts differ by a margin - at the very end of the text. The
/// tokens of the real `Markdown` parser (real pulldown-cmark) must lie inside the text, in increasing, non-overlapping
/// order (zero-width structural breaks aside).
fn markdown_case(kind: &str, x: &str, ignore_link_title: &str) -> i32 {
    use harper_core::parsers::{Markdown, MarkdownOptions, StrParser};
    let extra: usize = x.chars().map(|c| c.len_utf8() - 1).sum();
    let reps = if extra == 0 { 1 } else { 8 / extra + 1 };
    let body: String = x.repeat(reps);
    if kind == "entity" {
        // an HTML entity whose decoded text has another length than its source, followed by prose: the prose must be
        // found at its true position
        let mut bad = 0;
        for name in ["copy", "mdash", "#x1F600", "amp", "eacute"] {
            let text = format!("&{name}; zq");
            let mut opts = MarkdownOptions::default();
            opts.ignore_link_title = ignore_link_title == "true";
            let toks = Markdown::new(opts).parse_str(&text);
            let want = text.chars().count() - 2;
            let cs: Vec<char> = text.chars().collect();
            let words: Vec<_> = toks.iter().filter(|t| matches!(t.kind, harper_core::TokenKind::Word(_))).map(|t| (t.span.start, t.span.end)).collect();
            if !words.contains(&(want, want + 2)) || words.iter().any(|(a, b)| *b > cs.len() || cs[*a..*b].iter().any(|c| !c.is_alphabetic())) {
                println!("VIOLATED: in {text:?} the word \"zq\" lies at {want}..{}, the word tokens are at {words:?}", want + 2);
                bad = 1;
            }
        }
        return bad;
    }
    let text = match kind {
        "text" => format!("a {body}"),
        "code" => format!("a `{body}`"),
        "inline_html" => format!("a <b title=\"{body}\">"),
        "html" => format!("<div>{body}</div>"),
        "softbreak" => format!("{body}\nb"),
        "hardbreak" => format!("{body}  \nb"),
        "link" => format!("[{body}](u)"),
        other => panic!("unknown construct {other}"),
    };
    let mut opts = MarkdownOptions::default();
    opts.ignore_link_title = ignore_link_title == "true";
    let toks = Markdown::new(opts).parse_str(&text);
    let len = text.chars().count();
    let mut bad = 0;
    let mut prev_end = 0;
    for (i, t) in toks.iter().enumerate() {
        if t.span.start > t.span.end || t.span.end > len {
            println!("VIOLATED: token {i} {:?} has span {:?} in a text of {len} chars", t.kind, t.span);
            bad = 1;
        }
        if t.span.start != t.span.end {
            if t.span.start < prev_end {
                println!("VIOLATED: token {i} {:?} at {:?} overlaps the previous token, which ended at {prev_end}", t.kind, t.span);
                bad = 1;
            }
            prev_end = t.span.end;
        }
    }
    println!("markdown {:?} (ignore_link_title={}): {:?}", text, opts.ignore_link_title, toks.iter().map(|t| (t.span.start, t.span.end)).collect::<Vec<_>>());
    bad
}


/// C01 / C03 / C12 (per rule): the text is parsed as plain English and linted with the curated rule set (the named rule
/// switched on). `words` is a JSON list of [word, metadata-or-null]: in mode `custom-dictionary` the dictionary is a
/// MutableDictionary holding exactly these words with this metadata (a counterexample over dictionaries); otherwise the
/// curated dictionary is used. The run must return normally and every lint must lie inside the text. If the spec has a
/// `split` (the length of a first paragraph including its blank line), the lints of the whole text must equal those of
/// the first paragraph followed by those of the rest shifted by `split` (C12).
fn rule_doc_case(spec: &str, mode: &str) -> i32 {
    use harper_core::linting::{Lint, LintGroup, Linter};
    use harper_core::{Dialect, Dictionary, Document, FstDictionary, MutableDictionary, WordMetadata};
    use std::sync::Arc;
    let v: serde_json::Value = serde_json::from_str(spec).expect("JSON spec");
    let text = v["text"].as_str().unwrap().to_string();
    let rule = v["rule"].as_str().unwrap_or("").to_string();
    let split = v["split"].as_u64().map(|x| x as usize);
    fn lint_with(text: &str, rule: &str, dict: Arc<impl Dictionary + 'static>) -> (Vec<Lint>, i32) {
        let len = text.chars().count();
        let doc = Document::new_plain_english(text, &dict);
        let mut group = LintGroup::new_curated(dict, Dialect::American);
        if !rule.is_empty() {
            // only the rule under test, so that differences are attributable to it
            group.set_all_rules_to(Some(false));
            group.config.set_rule_enabled(rule, true);
        }
        let lints = group.lint(&doc);
        let mut bad = 0;
        for l in &lints {
            if l.span.start > l.span.end || l.span.end > len {
                println!("VIOLATED: lint {:?} ({:?}) lies outside the text of {len} chars", l.span, l.message);
                bad = 1;
            }
        }
        println!("text {:?}: {} tokens, {} lints {:?}", text, doc.get_tokens().len(), lints.len(), lints.iter().map(|l| (l.span.start, l.span.end)).collect::<Vec<_>>());
        (lints, bad)
    }
    fn all<D: Dictionary + 'static>(text: &str, rule: &str, split: Option<usize>, dict: Arc<D>) -> i32 {
        let (whole, mut bad) = lint_with(text, rule, dict.clone());
        if let Some(k) = split {
            let chars: Vec<char> = text.chars().collect();
            let p: String = chars[..k].iter().collect();
            let d: String = chars[k..].iter().collect();
            let (lp, b1) = lint_with(&p, rule, dict.clone());
            let (mut ld, b2) = lint_with(&d, rule, dict);
            bad |= b1 | b2;
            for l in &mut ld {
                l.span.start += k;
                l.span.end += k;
            }
            let mut want = lp;
            want.extend(ld);
            if whole != want {
                println!("VIOLATED: the lints of the whole text {:?} are not those of its first paragraph followed by those of the rest {:?}",
                         whole.iter().map(|l| (l.span.start, l.span.end, &l.message)).collect::<Vec<_>>(),
                         want.iter().map(|l| (l.span.start, l.span.end, &l.message)).collect::<Vec<_>>());
                bad = 1;
            }
        }
        bad
    }
    if mode == "custom-dictionary" {
        let mut dict = MutableDictionary::new();
        for w in v["words"].as_array().cloned().unwrap_or_default() {
            let word: Vec<char> = w[0].as_str().unwrap().chars().collect();
            if w[1].is_null() {
                continue; // a word the dictionary does not know
            }
            let md: WordMetadata = serde_json::from_value(w[1].clone()).expect("word metadata");
            dict.append_word(word, md);
        }
        all(&text, &rule, split, Arc::new(dict))
    } else {
        all(&text, &rule, split, FstDictionary::curated())
    }
}


/// C15: dictionaries holding the given words (one MutableDictionary with all of them; a MergedDictionary with one child per
/// word; an FstDictionary built from them) against brute-force definitions of membership, exact capitalisation, canonical
/// spelling, metadata and fuzzy search. args: <query> <max_distance> <max_results> <word>...
fn dict_case(args: &[String]) -> i32 {
    use harper_core::{Dictionary, FstDictionary, MergedDictionary, MutableDictionary, WordMetadata};
    use std::sync::Arc;
    // `history:<query>:<distance>` first: an earlier fuzzy look-up on this thread (thread-local state must not leak into results)
    let (history, args) = match args.first().and_then(|a| a.strip_prefix("history:")) {
        Some(h) => (h.rsplit_once(':').map(|(q, d)| (q.to_string(), d.parse::<u8>().unwrap_or(3))), &args[1..]),
        None => (None, args),
    };
    let q: Vec<char> = args[0].chars().collect();
    let d: u8 = args[1].parse().unwrap();
    let r: usize = args[2].parse().unwrap();
    // a word argument `p+t` is one child dictionary of the merged dictionary holding several words
    let groups: Vec<Vec<Vec<char>>> = args[3..].iter().map(|g| g.split('+').map(|w| w.chars().collect()).collect()).collect();
    let words: Vec<Vec<char>> = groups.iter().flatten().cloned().collect();
    let lower = |w: &[char]| -> Vec<char> { w.iter().flat_map(|c| c.to_lowercase()).collect() };
    fn lev(a: &[char], b: &[char]) -> u8 {
        if a.is_empty() { return b.len() as u8; }
        if b.is_empty() { return a.len() as u8; }
        let c = if a[0] == b[0] { 0 } else { 1 };
        (lev(&a[1..], b) + 1).min(lev(a, &b[1..]) + 1).min(lev(&a[1..], &b[1..]) + c)
    }
    let meta = |k: usize| { let mut m = WordMetadata::default(); m.common = k % 2 == 0; m };
    let mut all = MutableDictionary::new();
    let mut merged = MergedDictionary::new();
    let mut k = 0;
    for g in &groups {
        let mut one = MutableDictionary::new();
        for w in g {
            all.append_word(w.clone(), meta(k));
            one.append_word(w.clone(), meta(k));
            k += 1;
        }
        merged.add_dictionary(Arc::new(one));
    }
    let fst = FstDictionary::new(words.iter().enumerate().map(|(k, w)| (w.iter().copied().collect(), meta(k))).collect());
    if let Some((q0, d0)) = &history {
        let q0c: Vec<char> = q0.chars().collect();
        let _ = fst.fuzzy_match(&q0c, *d0, 100);
        let _ = FstDictionary::curated().fuzzy_match(&q0c, *d0, 100);
    }
    let distinct_lower = { let mut l: Vec<_> = words.iter().map(|w| lower(w)).collect(); l.sort(); l.dedup(); l.len() == words.len() };
    let mut bad = 0;
    let first = words.iter().position(|w| lower(w) == lower(&q));
    let want_contains = first.is_some();
    let want_exact = words.iter().any(|w| *w == q);
    let qs: String = q.iter().collect();
    let backends: Vec<(&str, &dyn Dictionary)> = vec![("MutableDictionary", &all), ("MergedDictionary", &merged), ("FstDictionary", &fst)];
    for (name, dict) in &backends {
        if !distinct_lower && *name != "MergedDictionary" { continue; }
        for (form, c, e, m) in [("", dict.contains_word(&q), dict.contains_exact_word(&q), dict.get_word_metadata(&q).map(|m| m.common)),
                                ("_str", dict.contains_word_str(&qs), dict.contains_exact_word_str(&qs), dict.get_word_metadata_str(&qs).map(|m| m.common))] {
            if c != want_contains { println!("VIOLATED: {name}::contains_word{form}({qs:?}) = {c} with words {:?}", &args[3..]); bad = 1; }
            if e != want_exact { println!("VIOLATED: {name}::contains_exact_word{form}({qs:?}) = {e} with words {:?}", &args[3..]); bad = 1; }
            let want_m = first.map(|k| meta(k).common);
            if m != want_m { println!("VIOLATED: {name}::get_word_metadata{form}({qs:?}) gives common = {m:?}, expected {want_m:?} with words {:?}", &args[3..]); bad = 1; }
        }
        let cap = dict.get_correct_capitalization_of(&q).map(|w| w.to_vec());
        let want_cap = first.map(|k| words[k].clone());
        if cap != want_cap { println!("VIOLATED: {name}::get_correct_capitalization_of({qs:?}) = {cap:?}, expected {want_cap:?}"); bad = 1; }
    }
    // fuzzy search (the FST back-end only for completeness/truth of what it returns on lower-case ASCII queries)
    let ql = lower(&q);
    let truth: Vec<(Vec<char>, u8)> = words.iter().map(|w| (w.clone(), lev(&q, w).min(lev(&ql, w)))).collect();
    let q_lower = q.iter().all(|c| c.is_lowercase());
    for (name, dict) in &backends {
        if !distinct_lower { continue; }
        let res = dict.fuzzy_match(&q, d, r);
        if res.len() > r { println!("VIOLATED: {name}::fuzzy_match({qs:?}, {d}, {r}) returns {} results", res.len()); bad = 1; }
        let mut prev = 0u8;
        for x in &res {
            match truth.iter().find(|(w, _)| w.as_slice() == x.word) {
                None => { println!("VIOLATED: {name}::fuzzy_match({qs:?}) returns {:?}, not a dictionary word", x.word); bad = 1; }
                Some((_, t)) => {
                    if *name != "FstDictionary" && x.edit_distance != *t { println!("VIOLATED: {name}::fuzzy_match({qs:?}, {d}, {r}) reports distance {} for {:?}, true distance {t}", x.edit_distance, x.word); bad = 1; }
                    if *name == "FstDictionary" && x.edit_distance != lev(&q, x.word) && x.edit_distance != lev(&ql, x.word) { println!("VIOLATED: {name}::fuzzy_match({qs:?}) reports a distance that is not a Levenshtein distance for {:?}", x.word); bad = 1; }
                }
            }
            if x.edit_distance > d { println!("VIOLATED: {name}::fuzzy_match({qs:?}, {d}, {r}) returns a word at distance {}", x.edit_distance); bad = 1; }
            if x.edit_distance < prev { println!("VIOLATED: {name}::fuzzy_match({qs:?}, {d}, {r}) is not ordered by distance"); bad = 1; }
            prev = x.edit_distance;
        }
        for i in 0..res.len() { for j in 0..i { if res[i].word == res[j].word { println!("VIOLATED: {name}::fuzzy_match({qs:?}) returns {:?} twice", res[i].word); bad = 1; } } }
        if q_lower {
            let within: Vec<_> = truth.iter().filter(|(_, t)| *t <= d).collect();
            if r >= words.len() {
                for (w, t) in &within {
                    if !res.iter().any(|x| x.word == w.as_slice()) { println!("VIOLATED: {name}::fuzzy_match({qs:?}, {d}, {r}) misses {:?} at distance {t} (words {:?})", w.iter().collect::<String>(), &args[3..]); bad = 1; }
                }
            } else if r >= 1 && !within.is_empty() {
                let best = within.iter().map(|(_, t)| *t).min().unwrap();
                if res.first().map(|x| x.edit_distance) != Some(best) { println!("VIOLATED: {name}::fuzzy_match({qs:?}, {d}, {r}) does not return a closest word (best distance {best})"); bad = 1; }
            }
        }
    }
    if bad == 0 { println!("ok: dictionaries agree with the definitions for query {qs:?}, words {:?}", &args[3..]); }
    bad
}


/// C06: SpellCheck over a MutableDictionary holding one word (with the given dialect, "None" for none) on a plain-English text.
/// args: <dictionary word> <word dialect|None> <active dialect> <text>
fn spell_case(args: &[String]) -> i32 {
    use harper_core::linting::{Linter, SpellCheck, Suggestion, LintKind};
    use harper_core::{Dialect, Dictionary, Document, MutableDictionary, TokenKind, WordMetadata};
    use harper_core::parsers::PlainEnglish;
    let dia = |s: &str| match s { "American" => Some(Dialect::American), "British" => Some(Dialect::British),
                                  "Australian" => Some(Dialect::Australian), "Canadian" => Some(Dialect::Canadian), _ => None };
    let w: Vec<char> = args[0].chars().collect();
    let wd = dia(&args[1]);
    let active = dia(&args[2]).unwrap_or(Dialect::American);
    let text = &args[3];
    let mut md = WordMetadata::default();
    md.dialect = wd;
    let mut dict = MutableDictionary::new();
    dict.append_word(w.clone(), md);
    let doc = Document::new(text, &PlainEnglish, &dict);
    let lints = SpellCheck::new(dict.clone(), active).lint(&doc);
    let src: Vec<char> = text.chars().collect();
    let lower = |x: &[char]| -> Vec<char> { x.iter().flat_map(|c| c.to_lowercase()).collect() };
    let upper = |x: &[char]| -> Vec<char> { x.iter().flat_map(|c| c.to_uppercase()).collect() };
    let mut bad = 0;
    let mut cap = w.clone();
    if let Some(f) = cap.first_mut() { *f = f.to_uppercase().next().unwrap(); }
    for t in doc.get_tokens() {
        if let TokenKind::Word(_) = t.kind {
            let cs = &src[t.span.start..t.span.end];
            let reported = lints.iter().filter(|l| l.span == t.span).count();
            let contained = lower(cs) == lower(&w);
            let w_is_lower = w.iter().all(|c| c.is_lowercase());
            let listed = cs == w.as_slice() || (w_is_lower && (cs == cap.as_slice() || cs == upper(&w).as_slice()));
            let dialect_ok = wd.is_none() || wd == Some(active);
            if !contained && cs.iter().all(|c| c.is_ascii_alphabetic()) && reported != 1 {
                println!("VIOLATED: the word {:?} is not in the dictionary {{{:?}}} but is reported {reported} times", cs.iter().collect::<String>(), args[0]); bad = 1;
            }
            if listed && dialect_ok && reported != 0 {
                println!("VIOLATED: the word {:?} is listed by the dictionary {{{:?}}} (dialect {:?}, active {:?}) but reported as misspelt", cs.iter().collect::<String>(), args[0], wd, active); bad = 1;
            }
        }
    }
    for l in &lints {
        if !doc.get_tokens().iter().any(|t| matches!(t.kind, TokenKind::Word(_)) && t.span == l.span) {
            println!("VIOLATED: spelling lint {:?} does not cover exactly one word of {text:?}", l.span); bad = 1;
        }
        if l.lint_kind != LintKind::Spelling { println!("VIOLATED: lint kind {:?}", l.lint_kind); bad = 1; }
        if l.suggestions.len() > 3 { println!("VIOLATED: {} suggestions", l.suggestions.len()); bad = 1; }
        for s in &l.suggestions {
            match s {
                Suggestion::ReplaceWith(v) => {
                    if v.as_slice() != w.as_slice() && v.as_slice() != cap.as_slice() { println!("VIOLATED: suggestion {:?} is not a dictionary word", v.iter().collect::<String>()); bad = 1; }
                    if wd.is_some() && wd != Some(active) { println!("VIOLATED: suggestion {:?} belongs to dialect {:?}, active is {:?}", v.iter().collect::<String>(), wd, active); bad = 1; }
                }
                other => { println!("VIOLATED: suggestion {other:?}"); bad = 1; }
            }
        }
    }
    let _ = dict.word_count();
    if bad == 0 { println!("ok: spell check of {text:?} against {{{:?}}} agrees with the dictionary", args[0]); }
    bad
}


/// C04: a Rust file whose `//` comment lines are the lines of `text`; no word of a line that lies inside a ``` code fence (a
/// fence line = a comment line starting with three backticks) may be offered as prose, words of lines outside must be.
fn comment_fence_case(text: &str) -> i32 {
    use harper_core::{Document, TokenKind};
    let file: String = text.split('\n').map(|l| format!("// {l}\n")).collect();
    let parser = harper_comments::CommentParser::new_from_language_id("rust", Default::default()).unwrap();
    let doc = Document::new_curated(&file, &parser);
    let src: Vec<char> = file.chars().collect();
    let mut bad = 0;
    let mut inside = false;
    let mut pos = 0;
    for l in text.split('\n') {
        let line_len = l.chars().count() + 4;
        let is_fence = l.trim_start().starts_with("```");
        let words: Vec<String> = doc.get_tokens().iter()
            .filter(|t| matches!(t.kind, TokenKind::Word(_)) && t.span.start >= pos && t.span.start < pos + line_len)
            .map(|t| src[t.span.start..t.span.end].iter().collect()).collect();
        if !is_fence {
            if inside && !words.is_empty() { println!("VIOLATED: {words:?} on the line {l:?} lie inside a code fence but are offered as prose (file {file:?})"); bad = 1; }
            if !inside && words.is_empty() && l.chars().all(|c| c.is_ascii_alphabetic()) && !l.is_empty() { println!("VIOLATED: the prose line {l:?} outside every code fence is not offered (file {file:?})"); bad = 1; }
        }
        if is_fence { inside = !inside; }
        pos += line_len;
    }
    if bad == 0 { println!("ok: code fences respected in {file:?}"); }
    bad
}


/// C12: the parsed document of `text` equals the parsed document of its first `split` characters (a paragraph with its
/// break) followed by the parsed document of the rest, shifted - with an empty and with the curated dictionary.
fn doc_locality_case(text: &str, split: usize) -> i32 {
    use harper_core::{Document, FstDictionary, MutableDictionary, TokenKind};
    use harper_core::parsers::PlainEnglish;
    let cs: Vec<char> = text.chars().collect();
    let p: String = cs[..split].iter().collect();
    let d: String = cs[split..].iter().collect();
    let mut bad = 0;
    let empty = MutableDictionary::new();
    let curated = FstDictionary::curated();
    for which in 0..2 {
        let mk = |t: &str| if which == 0 { Document::new(t, &PlainEnglish, &empty) } else { Document::new(t, &PlainEnglish, &curated) };
        let key = |doc: &Document, shift: usize| doc.get_tokens().iter().map(|t| {
            let k = match &t.kind { TokenKind::Word(m) => format!("Word({})", m.is_some()), other => format!("{other:?}") };
            (t.span.start + shift, t.span.end + shift, k) }).collect::<Vec<_>>();
        let whole = key(&mk(text), 0);
        let mut parts = key(&mk(&p), 0);
        parts.extend(key(&mk(&d), split));
        if whole != parts {
            println!("VIOLATED: {text:?} parses to {whole:?}, but its paragraph {p:?} and the rest {d:?} parse to {parts:?} (dictionary: {})", if which == 0 { "empty" } else { "curated" });
            bad = 1;
        }
    }
    if bad == 0 { println!("ok: {text:?} parses like its paragraphs"); }
    bad
}


/// C14: IgnoredLints through its public API on plain-English documents. `mode` is same / edit / shift, `spec` the JSON
/// counterexample of the kernel ({documents, ignored_token, other_token | edited_token, ignored: {..}, other: {..}}).
fn ignore_case(mode: &str, spec: &str) -> i32 {
    use harper_core::linting::{Lint, LintKind, Suggestion};
    use harper_core::{Document, IgnoredLints, Token};
    let v: serde_json::Value = serde_json::from_str(spec).expect("JSON spec");
    let docs: Vec<String> = v["documents"].as_array().unwrap().iter().map(|d| d.as_str().unwrap().to_string()).collect();
    let kind = |s: &str| match s { "Spelling" => LintKind::Spelling, "Capitalization" => LintKind::Capitalization, "Style" => LintKind::Style,
                                   "Formatting" => LintKind::Formatting, "Repetition" => LintKind::Repetition, _ => LintKind::Miscellaneous };
    let fields = |o: &serde_json::Value| -> (LintKind, String, u8, char) {
        if o.is_null() { return (LintKind::Spelling, "m".to_string(), 31, 'x'); }
        (kind(o["kind"].as_str().unwrap_or("")), o["message"].as_str().unwrap_or("m").to_string(), o["priority"].as_u64().unwrap_or(0) as u8,
         o["suggestion"].as_str().unwrap_or("x").chars().next().unwrap_or('x'))
    };
    let mk = |t: &Token, f: &(LintKind, String, u8, char)| Lint { span: t.span, lint_kind: f.0, suggestions: vec![Suggestion::ReplaceWith(vec![f.3])], message: f.1.clone(), priority: f.2 };
    let d1 = Document::new_plain_english_curated(&docs[0]);
    let i = v["ignored_token"].as_u64().unwrap() as usize;
    let fa = fields(&v["ignored"]);
    let Some(ti) = d1.get_tokens().get(i) else { println!("token {i} does not exist in {:?}", docs[0]); return 0; };
    let a = mk(ti, &fa);
    let mut ign = IgnoredLints::new();
    ign.ignore_lint(&a, &d1);
    // reference: (text, kind) of the tokens in the windows [s-2, s), [s, e), [s+2, s+4)
    let window = |doc: &Document, t: &Token| -> Vec<(String, String)> {
        let src: Vec<char> = doc.get_full_string().chars().collect();
        let (s, e) = (t.span.start as i64, t.span.end as i64);
        let mut out = vec![];
        let mut wins = vec![];
        if s >= 2 { wins.push((s - 2, s)); }
        wins.push((s, e));
        wins.push((s + 2, s + 4));
        for (a, b) in wins {
            for x in doc.get_tokens() {
                if (x.span.start as i64).max(a) < (x.span.end as i64).min(b) {
                    out.push((src[x.span.start..x.span.end].iter().collect(), format!("{:?}", std::mem::discriminant(&x.kind))));
                }
            }
        }
        out
    };
    if mode == "append" {
        // two lists, one lint ignored in each, the second appended to the first: both must be hidden afterwards. The hashes (and
        // hence any order-dependent behaviour of the container) are the real ones, so a range of messages is tried.
        let j = v["other_token"].as_u64().unwrap_or(0) as usize;
        let Some(tj) = d1.get_tokens().get(j) else { return 0; };
        for m1 in 'a'..='h' { for m2 in 'a'..='h' { for m3 in ['x', 'y'] {
            let fa = (LintKind::Spelling, m1.to_string(), 1u8, 'q');
            let fb = (LintKind::Style, m2.to_string(), 2u8, 'r');
            let fc = (LintKind::Style, m3.to_string(), 3u8, 's');
            let (a, b, c) = (mk(ti, &fa), mk(tj, &fb), mk(tj, &fc));
            let mut l1 = IgnoredLints::new();
            l1.ignore_lint(&a, &d1);
            l1.ignore_lint(&c, &d1);
            let mut l2 = IgnoredLints::new();
            l2.ignore_lint(&b, &d1);
            l1.append(l2);
            let mut l = vec![a.clone(), b.clone(), c.clone()];
            l1.remove_ignored(&mut l, &d1);
            if !l.is_empty() { println!("VIOLATED: in {:?}, after appending an ignore list to another, {} of the 3 ignored lints are reported again (messages {m1:?}, {m2:?}, {m3:?})", docs[0], l.len()); return 1; }
        } } }
        println!("ok: appended ignore lists keep hiding their lints on {:?}", docs[0]);
        return 0;
    }
    match mode {
        "same" => {
            let j = v["other_token"].as_u64().unwrap() as usize;
            let fb = fields(&v["other"]);
            let Some(tj) = d1.get_tokens().get(j) else { return 0; };
            let b = mk(tj, &fb);
            let same = fa == fb && window(&d1, ti) == window(&d1, tj);
            let mut l = vec![b];
            ign.remove_ignored(&mut l, &d1);
            let hidden = l.is_empty();
            if hidden && !same { println!("VIOLATED: in {:?} the lint {:?} on token {j} is hidden after ignoring the different lint {:?} on token {i}", docs[0], fb, fa); return 1; }
            if !hidden && same { println!("VIOLATED: in {:?} the lint on token {j} equals the ignored lint on token {i} (fields and surrounding tokens) but is still reported", docs[0]); return 1; }
        }
        _ => {
            let d2 = Document::new_plain_english_curated(&docs[1]);
            let i2 = if mode == "shift" { i + 2 } else { i };
            let Some(t2) = d2.get_tokens().get(i2) else { return 0; };
            if window(&d1, ti) != window(&d2, t2) { println!("the windows differ: not a counterexample"); return 0; }
            let mut l = vec![mk(t2, &fa)];
            ign.remove_ignored(&mut l, &d2);
            if !l.is_empty() { println!("VIOLATED: the lint ignored on token {i} of {:?} is reported again in {:?} although the tokens within two characters of it are the same", docs[0], docs[1]); return 1; }
        }
    }
    println!("ok: ignore list behaves on {:?}", docs);
    0
}


/// C18: make_title_case_str on `text` with the curated dictionary and with every small custom dictionary that knows one word of
/// the text (stored lower-case / Capitalised / UPPER / as written; proper noun, determiner, preposition flags in all
/// combinations): same length, only letter case changes, first word capitalised, idempotent.
fn title_case(text: &str) -> i32 {
    use harper_core::parsers::PlainEnglish;
    use harper_core::{make_title_case_str, Dictionary, FstDictionary, MutableDictionary, NounData, WordMetadata};
    fn check(text: &str, dict: &impl Dictionary, what: &str) -> i32 {
        let t1 = make_title_case_str(text, &PlainEnglish, dict);
        let a: Vec<char> = text.chars().collect();
        let b: Vec<char> = t1.chars().collect();
        let fold = |c: char| match c { '\u{2019}' | '\u{2018}' | '\u{FF07}' => '\'', c => c.to_lowercase().next().unwrap() };
        if a.len() != b.len() || a.iter().zip(&b).any(|(x, y)| fold(*x) != fold(*y)) {
            println!("VIOLATED: title case of {text:?} is {t1:?} - more than letter case changed ({what})"); return 1;
        }
        if let Some(i) = a.iter().position(|c| c.is_alphanumeric()) {
            if a[i].is_ascii_alphabetic() && !b[i].is_ascii_uppercase() { println!("VIOLATED: title case of {text:?} is {t1:?} - the first word is not capitalised ({what})"); return 1; }
        }
        let t2 = make_title_case_str(&t1, &PlainEnglish, dict);
        if t2 != t1 { println!("VIOLATED: title case of {text:?} is {t1:?}, applying it again gives {t2:?} ({what})"); return 1; }
        0
    }
    let mut bad = check(text, &FstDictionary::curated(), "curated dictionary");
    let words: Vec<String> = text.split(|c: char| !c.is_alphabetic()).filter(|w| !w.is_empty()).map(|w| w.to_string()).collect();
    for w in &words {
        let mut cap: Vec<char> = w.to_lowercase().chars().collect();
        cap[0] = cap[0].to_ascii_uppercase();
        // .. and the "stylised" spelling: lower-case initial, capitals inside (eBay, macOS)
        let mut styl: Vec<char> = w.to_uppercase().chars().collect();
        styl[0] = styl[0].to_ascii_lowercase();
        for stored in [w.clone(), w.to_lowercase(), w.to_uppercase(), cap.iter().collect::<String>(), styl.iter().collect::<String>()] {
            for flags in 0..8 {
                let mut md = WordMetadata::default();
                if flags & 1 != 0 { md.noun = Some(NounData { is_proper: Some(true), ..Default::default() }); }
                md.determiner = flags & 2 != 0;
                md.preposition = flags & 4 != 0;
                let mut d = MutableDictionary::new();
                d.append_word_str(&stored, md);
                bad |= check(text, &d, &format!("dictionary {{{stored:?}}} flags {flags}"));
                if bad != 0 { return bad; }
            }
        }
    }
    if bad == 0 { println!("ok: title case of {text:?}"); }
    bad
}


/// C04: `parsers::Mask` with a masker that allows the given spans (built with the real `Mask::push_allowed`, optionally merged with
/// the real `merge_whitespace_sep`) and an inner parser that returns one word per slice. args: <text> <s,e;s,e;..> <merge 0|1>
fn mask_case(text: &str, spans: &str, merge: &str) -> i32 {
    use harper_core::parsers::Parser;
    use harper_core::{Mask, Masker, Token, TokenKind};
    struct Spans(Vec<(usize, usize)>, bool);
    impl Masker for Spans {
        fn create_mask(&self, source: &[char]) -> Mask {
            let mut m = Mask::new_blank();
            for (s, e) in &self.0 { m.push_allowed(Span::new(*s, *e)); }
            if self.1 { m.merge_whitespace_sep(source); }
            m
        }
    }
    struct OneWord;
    impl Parser for OneWord {
        fn parse(&self, source: &[char]) -> Vec<Token> {
            if source.is_empty() { vec![] } else { vec![Token::new(Span::new(0, source.len()), TokenKind::Word(None))] }
        }
    }
    let chars: Vec<char> = text.chars().collect();
    let allowed: Vec<(usize, usize)> = spans.split(';').filter(|p| !p.is_empty()).map(|p| { let (a, b) = p.split_once(',').unwrap(); (a.parse().unwrap(), b.parse().unwrap()) }).collect();
    let merge = merge == "1";
    let toks = harper_core::parsers::Mask::new(Spans(allowed.clone(), merge), OneWord).parse(&chars);
    let is_allowed = |p: usize| allowed.iter().any(|(s, e)| *s <= p && p < *e);
    let mut bad = 0;
    let mut prev = 0;
    for t in &toks {
        if t.span.start > t.span.end || t.span.end > chars.len() || t.span.start < prev { println!("VIOLATED: token {:?} {:?} out of bounds / order in {text:?}", t.kind, t.span); bad = 1; }
        prev = t.span.end;
        match t.kind {
            TokenKind::Word(_) => {
                for p in t.span.start..t.span.end.min(chars.len()) {
                    if !is_allowed(p) && !(merge && (chars[p].is_whitespace())) { println!("VIOLATED: character {p} of {text:?} is offered to the prose parser although the masker did not allow it (allowed {allowed:?})"); bad = 1; }
                }
            }
            TokenKind::ParagraphBreak => {
                if !chars[t.span.start.min(chars.len())..t.span.end.min(chars.len())].contains(&'\n') { println!("VIOLATED: paragraph break {:?} covers no line feed in {text:?}", t.span); bad = 1; }
            }
            _ => { println!("VIOLATED: unexpected token {:?}", t.kind); bad = 1; }
        }
    }
    for p in 0..chars.len() {
        if is_allowed(p) && !toks.iter().any(|t| matches!(t.kind, TokenKind::Word(_)) && t.span.start <= p && p < t.span.end) { println!("VIOLATED: allowed character {p} of {text:?} is in no word token (allowed {allowed:?})"); bad = 1; }
    }
    if merge {
        let words: Vec<_> = toks.iter().filter(|t| matches!(t.kind, TokenKind::Word(_))).collect();
        for w in words.windows(2) {
            if chars[w[0].span.end..w[1].span.start].iter().all(|c| c.is_whitespace()) { println!("VIOLATED: chunks {:?} and {:?} of {text:?} are separated by whitespace only but were not merged", w[0].span, w[1].span); bad = 1; }
        }
    }
    if bad == 0 { println!("ok: mask {allowed:?} (merge {merge}) on {text:?}: {} tokens", toks.len()); }
    bad
}

//! C12 — checking two paragraphs together equals checking them separately: the structural
//! kernel (how rules are handed their clauses, sentences and paragraphs).
use crate::util::*;
use harper_core::{Punctuation, Quote, Span, Token, TokenKind, TokenStringExt};

#[derive(Clone, Copy, PartialEq)]
enum Split {
    Chunks,
    Sentences,
    Paragraphs,
}

/// Independent restatement of the three terminator classes.
fn is_term(k: &TokenKind, how: Split) -> bool {
    let sentence = matches!(
        k,
        TokenKind::ParagraphBreak
            | TokenKind::Punctuation(Punctuation::Period)
            | TokenKind::Punctuation(Punctuation::Bang)
            | TokenKind::Punctuation(Punctuation::Question)
    );
    match how {
        Split::Paragraphs => matches!(k, TokenKind::ParagraphBreak),
        Split::Sentences => sentence,
        Split::Chunks => {
            sentence
                || matches!(
                    k,
                    TokenKind::Punctuation(Punctuation::Comma)
                        | TokenKind::Punctuation(Punctuation::Colon)
                        | TokenKind::Punctuation(Punctuation::Quote(_))
                )
        }
    }
}

fn any_kind_small() -> TokenKind {
    match kani::any::<u8>() {
        0 => TokenKind::Word(None),
        1 => TokenKind::Space(1),
        2 => TokenKind::Punctuation(Punctuation::Period),
        3 => TokenKind::Punctuation(Punctuation::Comma),
        4 => TokenKind::Punctuation(Punctuation::Quote(Quote { twin_loc: None })),
        5 => TokenKind::ParagraphBreak,
        6 => TokenKind::Punctuation(Punctuation::Question),
        7 => TokenKind::Punctuation(Punctuation::Colon),
        8 => TokenKind::Newline(1),
        x => {
            kani::assume(x == 9);
            TokenKind::Punctuation(Punctuation::Hyphen)
        }
    }
}

/// The pieces are contiguous, in order, cover the token list exactly, each piece except
/// possibly the last ends with its terminator, and no piece has a terminator anywhere else.
/// Pieces are identified by their first token's span.start (token i carries span i..i+1).
fn check_split<const N: usize>(how: Split) {
    let toks: [Token; N] = core::array::from_fn(|i| Token {
        span: Span { start: i, end: i + 1 },
        kind: any_kind_small(),
    });
    let mut next = 0usize; // index of the next uncovered token
    let mut pieces = 0usize;
    macro_rules! walk {
        ($iter:expr) => {
            for piece in $iter {
                pieces += 1;
                if N == 0 {
                    assert!(piece.is_empty());
                    continue;
                }
                assert!(!piece.is_empty(), "no empty piece");
                assert!(piece[0].span.start == next, "pieces are contiguous and in order");
                let mut j = 0;
                while j < piece.len() {
                    assert!(piece[j].span.start == next + j);
                    let last = j + 1 == piece.len();
                    if !last {
                        assert!(!is_term(&piece[j].kind, how), "a terminator ends its piece");
                    }
                    j += 1;
                }
                next += piece.len();
                if next < N {
                    assert!(is_term(&piece[piece.len() - 1].kind, how), "every piece but the last ends in a terminator");
                }
            }
        };
    }
    match how {
        Split::Chunks => walk!(toks.iter_chunks()),
        Split::Sentences => walk!(toks.iter_sentences()),
        Split::Paragraphs => walk!(toks.iter_paragraphs()),
    }
    assert!(next == N, "the pieces cover every token exactly once");
    kani::cover!(N < 2 || pieces == 2, "two pieces reachable (N >= 2)");
    core::mem::forget(toks);
}

macro_rules! inst {
    ($name:ident, $n:expr, $how:expr, $u:expr) => {
        #[kani::proof]
        #[kani::unwind($u)]
        fn $name() {
            check_split::<$n>($how);
        }
    };
}
// HV: {"name":"c12_chunks_n0","prop":"C12","kernel":"TokenStringExt::iter_chunks","bound":"0 tokens","fns":["harper_core::token_string_ext::TokenStringExt::iter_chunks"]}
inst!(c12_chunks_n0, 0, Split::Chunks, 4);
// HV: {"name":"c12_chunks_n1","prop":"C12","kernel":"TokenStringExt::iter_chunks","bound":"1 token of 10 kinds","fns":["harper_core::token_string_ext::TokenStringExt::iter_chunks"]}
inst!(c12_chunks_n1, 1, Split::Chunks, 5);
// HV: {"name": "c12_chunks_n2", "prop": "C12", "kernel": "TokenStringExt::iter_chunks", "bound": "2 tokens of 10 kinds each", "fns": ["harper_core::token_string_ext::TokenStringExt::iter_chunks"], "cost": 5, "tier": "thorough", "mem_gb": 20, "mem_expect_gb": 10, "timeout_s": 2400}
inst!(c12_chunks_n2, 2, Split::Chunks, 6);
// HV: {"name": "c12_chunks_n3", "prop": "C12", "kernel": "TokenStringExt::iter_chunks", "bound": "3 tokens of 10 kinds each", "fns": ["harper_core::token_string_ext::TokenStringExt::iter_chunks"], "cost": 8, "tier": "thorough", "mem_gb": 30, "mem_expect_gb": 14, "timeout_s": 3000}
inst!(c12_chunks_n3, 3, Split::Chunks, 7);
// (not admitted: N=3 already needs > 13 GB) {"name": "c12_chunks_n4", "prop": "C12", "tier": "thorough", "kernel": "TokenStringExt::iter_chunks", "bound": "4 tokens of 10 kinds each", "fns": ["harper_core::token_string_ext::TokenStringExt::iter_chunks"], "cost": 10, "mem_gb": 30, "mem_expect_gb": 12}
inst!(c12_chunks_n4, 4, Split::Chunks, 8);
// HV: {"name": "c12_sentences_n2", "prop": "C12", "kernel": "TokenStringExt::iter_sentences", "bound": "2 tokens of 10 kinds each", "fns": ["harper_core::token_string_ext::TokenStringExt::iter_sentences"], "cost": 5, "tier": "thorough", "mem_gb": 20, "mem_expect_gb": 9, "timeout_s": 2400}
inst!(c12_sentences_n2, 2, Split::Sentences, 6);
// HV: {"name": "c12_sentences_n3", "prop": "C12", "kernel": "TokenStringExt::iter_sentences", "bound": "3 tokens of 10 kinds each", "fns": ["harper_core::token_string_ext::TokenStringExt::iter_sentences"], "cost": 8, "tier": "thorough", "mem_gb": 30, "mem_expect_gb": 14, "timeout_s": 3000}
inst!(c12_sentences_n3, 3, Split::Sentences, 7);
// HV: {"name":"c12_paragraphs_n2","prop":"C12","kernel":"TokenStringExt::iter_paragraphs","bound":"2 tokens of 10 kinds each","fns":["harper_core::token_string_ext::TokenStringExt::iter_paragraphs"],"cost":5}
inst!(c12_paragraphs_n2, 2, Split::Paragraphs, 6);
// HV: {"name": "c12_paragraphs_n3", "prop": "C12", "kernel": "TokenStringExt::iter_paragraphs", "bound": "3 tokens of 10 kinds each", "fns": ["harper_core::token_string_ext::TokenStringExt::iter_paragraphs"], "cost": 8, "tier": "thorough", "mem_gb": 30, "mem_expect_gb": 14, "timeout_s": 3000}
inst!(c12_paragraphs_n3, 3, Split::Paragraphs, 7);
// (not admitted: N=3 already needs 7 GB / 340 s) {"name": "c12_paragraphs_n4", "prop": "C12", "tier": "thorough", "kernel": "TokenStringExt::iter_paragraphs", "bound": "4 tokens of 10 kinds each", "fns": ["harper_core::token_string_ext::TokenStringExt::iter_paragraphs"], "cost": 10, "mem_gb": 30, "mem_expect_gb": 12}
inst!(c12_paragraphs_n4, 4, Split::Paragraphs, 8);

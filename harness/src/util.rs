//! Shared symbolic-input builders. Everything here is harness code (part of the trusted
//! base listed in evidence), none of it models harper.

use harper_core::{
    ConjunctionData, NounData, Number, NumberSuffix, PronounData, Punctuation, Quote, Span, Token,
    TokenKind, VerbData, WordMetadata,
};

/// Any Unicode scalar value.
#[inline(always)]
pub fn any_char() -> char {
    kani::any()
}

/// Character domain D: any ASCII code point (symbolic) or one of nine fixed non-ASCII
/// representatives chosen symbolically. Used where the code under test consults Unicode
/// tables (binary searches over large static tables) that are intractable on an arbitrary
/// `char`; on the constants every lookup folds away.
#[inline(always)]
pub fn any_char_d() -> char {
    let sel: u8 = kani::any();
    match sel {
        0 => {
            let b: u8 = kani::any();
            kani::assume(b < 0x80);
            b as char
        }
        1 => 'é',
        2 => 'ß',
        3 => 'İ',
        4 => '世',
        5 => '😀',
        6 => '’',
        7 => '\u{a0}',
        8 => '٣',
        _ => {
            kani::assume(sel == 9);
            '\u{301}'
        }
    }
}

/// Any ASCII character.
#[inline(always)]
pub fn any_ascii() -> char {
    let b: u8 = kani::any();
    kani::assume(b < 0x80);
    b as char
}

pub fn any_chars<const L: usize>() -> [char; L] {
    let mut a = ['\0'; L];
    let mut i = 0;
    while i < L {
        a[i] = any_char();
        i += 1;
    }
    a
}

pub fn any_chars_d<const L: usize>() -> [char; L] {
    let mut a = ['\0'; L];
    let mut i = 0;
    while i < L {
        a[i] = any_char_d();
        i += 1;
    }
    a
}

pub fn any_chars_ascii<const L: usize>() -> [char; L] {
    let mut a = ['\0'; L];
    let mut i = 0;
    while i < L {
        a[i] = any_ascii();
        i += 1;
    }
    a
}

/// A span with `start <= end <= max_end`.
#[inline(always)]
pub fn any_span_within(max_end: usize) -> Span {
    let start: usize = kani::any();
    let end: usize = kani::any();
    kani::assume(start <= end && end <= max_end);
    Span { start, end }
}

/// Word metadata with symbolic flags (the fields the pattern leaves look at).
pub fn any_word_metadata() -> WordMetadata {
    let mut m = WordMetadata::default();
    if kani::any() {
        m.noun = Some(NounData {
            is_proper: kani::any(),
            is_plural: kani::any(),
            is_possessive: kani::any(),
        });
    }
    if kani::any() {
        m.pronoun = Some(PronounData {
            is_plural: kani::any(),
            is_possessive: kani::any(),
            ..Default::default()
        });
    }
    if kani::any() {
        m.verb = Some(VerbData {
            is_linking: kani::any(),
            is_auxiliary: kani::any(),
            tense: None,
        });
    }
    if kani::any() {
        m.conjunction = Some(ConjunctionData {});
    }
    if kani::any() {
        m.adjective = Some(Default::default());
    }
    if kani::any() {
        m.adverb = Some(Default::default());
    }
    m.determiner = kani::any();
    m.preposition = kani::any();
    m.common = kani::any();
    m
}

/// A token kind from a menu that covers every structural class the kernels branch on.
pub fn any_token_kind() -> TokenKind {
    let sel: u8 = kani::any();
    match sel {
        0 => TokenKind::Word(None),
        1 => TokenKind::Word(Some(any_word_metadata())),
        2 => TokenKind::Punctuation(Punctuation::Period),
        3 => TokenKind::Punctuation(Punctuation::Comma),
        4 => TokenKind::Punctuation(Punctuation::Quote(Quote { twin_loc: None })),
        5 => TokenKind::Punctuation(Punctuation::Apostrophe),
        6 => TokenKind::Punctuation(Punctuation::Hyphen),
        7 => {
            let n: usize = kani::any();
            kani::assume(n >= 1 && n <= 4);
            TokenKind::Space(n)
        }
        8 => {
            let n: usize = kani::any();
            kani::assume(n >= 1 && n <= 4);
            TokenKind::Newline(n)
        }
        9 => TokenKind::ParagraphBreak,
        10 => TokenKind::Unlintable,
        11 => TokenKind::Number(Number {
            value: (kani::any::<u8>() as f64).into(),
            suffix: None,
            radix: 10,
            precision: 0,
        }),
        12 => TokenKind::Punctuation(Punctuation::Question),
        _ => {
            kani::assume(sel == 13);
            TokenKind::Punctuation(Punctuation::Bang)
        }
    }
}

/// `N` tokens with symbolic kinds (menu above) whose spans are in `[0, src_len]`, ordered and
/// non-overlapping — the invariant every parser establishes (property C02).
pub fn any_tokens_ordered<const N: usize>(src_len: usize) -> [Token; N] {
    let mut prev_end = 0usize;
    core::array::from_fn(|_| {
        let start: usize = kani::any();
        let end: usize = kani::any();
        kani::assume(prev_end <= start && start <= end && end <= src_len);
        prev_end = end;
        Token {
            span: Span { start, end },
            kind: any_token_kind(),
        }
    })
}

/// `N` tokens with symbolic kinds and *arbitrary* in-bounds spans (no ordering assumed).
pub fn any_tokens_inbounds<const N: usize>(src_len: usize) -> [Token; N] {
    core::array::from_fn(|_| Token {
        span: any_span_within(src_len),
        kind: any_token_kind(),
    })
}

/// A lighter kind menu (no dictionary metadata) for kernels that only look at the structural class.
pub fn any_token_kind_light() -> TokenKind {
    match kani::any::<u8>() {
        0 => TokenKind::Word(None),
        1 => TokenKind::Punctuation(Punctuation::Period),
        2 => TokenKind::Punctuation(Punctuation::Comma),
        3 => TokenKind::Punctuation(Punctuation::Apostrophe),
        4 => TokenKind::Space(1),
        5 => TokenKind::Newline(1),
        6 => TokenKind::Unlintable,
        x => {
            kani::assume(x == 7);
            TokenKind::ParagraphBreak
        }
    }
}

pub fn any_tokens_ordered_light<const N: usize>(src_len: usize) -> [Token; N] {
    let mut prev_end = 0usize;
    core::array::from_fn(|_| {
        let start: usize = kani::any();
        let end: usize = kani::any();
        kani::assume(prev_end <= start && start <= end && end <= src_len);
        prev_end = end;
        Token {
            span: Span { start, end },
            kind: any_token_kind_light(),
        }
    })
}

/// Nondeterministic stand-ins for Unicode table look-ups (binary searches over large static
/// tables in `core` / `unicode-script`). They over-approximate the tables: any answer is
/// possible for any character, so what is shown with them holds for the real tables too.
pub mod stubs {
    pub fn any_bool_for_char(_c: char) -> bool {
        kani::any()
    }
    /// `unicode_script::get_script`: Latin, some non-Latin script, or unknown - a complete
    /// partition of the answers with respect to the only comparison harper makes (`== Latin`).
    pub fn any_script(_c: char) -> Option<unicode_script::Script> {
        match kani::any::<u8>() {
            0 => Some(unicode_script::Script::Latin),
            1 => Some(unicode_script::Script::Han),
            _ => None,
        }
    }
}

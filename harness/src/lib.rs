//! Bounded-model-checking harnesses (Kani) over the real Automattic/harper code.
//! Every registered harness is preceded by a `// HV: {json}` line read by /verif/check.
#![allow(dead_code, unused_imports, clippy::all)]

#[cfg(kani)]
mod util;

#[cfg(kani)]
mod c01;
#[cfg(kani)]
mod c02;
#[cfg(kani)]
mod c03;
#[cfg(kani)]
mod c08;
#[cfg(kani)]
mod c12;
#[cfg(kani)]
mod c13;
#[cfg(kani)]
mod c15;
#[cfg(kani)]
mod c17;

/// Build probe used by `./check --setup` (compiles /repo with the hooks on); not an obligation.
#[cfg(kani)]
mod smoke {
    use harper_core::Span;
    #[kani::proof]
    fn smoke_span() {
        let a: usize = kani::any();
        let b: usize = kani::any();
        kani::assume(a <= b);
        assert!(Span::new(a, b).len() == b - a);
    }
}


//! C08 — editor diagnostics and quick-fix edits land exactly on the flagged text.
//! The real `harper-ls/src/pos_conv.rs` is compiled into this crate (harper-ls is a binary
//! crate, so it cannot be a dependency); it uses the real `harper_core::Span` and
//! `tower_lsp::lsp_types::{Position, Range}`.
use harper_core::Span;
use tower_lsp::lsp_types::{Position, Range};

#[path = "/repo/harper-ls/src/pos_conv.rs"]
#[allow(dead_code)]
mod pos_conv;
use pos_conv::{range_to_span, span_to_range};

/// Alphabet: LF, CR, an ASCII letter, an astral-plane char (2 UTF-16 units), TAB, a BMP non-ASCII letter.
fn any_sym() -> char {
    match kani::any::<u8>() {
        0 => '\n',
        1 => '\r',
        2 => 'a',
        3 => '\u{1F600}',
        4 => '\t',
        x => {
            kani::assume(x == 5);
            'é'
        }
    }
}

fn any_src<const L: usize>() -> [char; L] {
    let mut a = ['a'; L];
    let mut i = 0;
    while i < L {
        a[i] = any_sym();
        i += 1;
    }
    a
}

/// Reference: LSP position of char index `idx` (line = LFs before it, character = UTF-16
/// units since the last LF). Written independently of the implementation.
fn ref_pos(src: &[char], idx: usize) -> (u32, u32) {
    let mut line = 0u32;
    let mut col = 0u32;
    let mut i = 0;
    while i < idx {
        if src[i] == '\n' {
            line += 1;
            col = 0;
        } else {
            col += if (src[i] as u32) >= 0x10000 { 2 } else { 1 };
        }
        i += 1;
    }
    (line, col)
}

fn span_to_range_matches_ref<const L: usize>() {
    let src = any_src::<L>();
    let s: usize = kani::any();
    let e: usize = kani::any();
    kani::assume(s <= e && e <= L);
    let r = span_to_range(&src, Span { start: s, end: e });
    let (sl, sc) = ref_pos(&src, s);
    let (el, ec) = ref_pos(&src, e);
    assert!(r.start.line == sl && r.start.character == sc);
    assert!(r.end.line == el && r.end.character == ec);
    kani::cover!(e == L && (L < 3 || (r.end.line == 1 && r.end.character == 2)), "span to end of text (L>=3: ending on line 1, column 2) reachable");
}

fn roundtrip<const L: usize>() {
    let src = any_src::<L>();
    let s: usize = kani::any();
    let e: usize = kani::any();
    kani::assume(s <= e && e <= L);
    let span = Span { start: s, end: e };
    let r = span_to_range(&src, span);
    let back = range_to_span(&src, r);
    assert!(back.start == s, "range_to_span(span_to_range(s)).start == s.start");
    assert!(back.end == e, "range_to_span(span_to_range(s)).end == s.end");
    kani::cover!(e == L && (L < 1 || r.end.line == 1), "span to end of text (L>=1: ending on a later line) reachable");
}

/// The filter in `document_state.rs:generate_code_actions`: a code-action request anywhere
/// inside a diagnostic's range must select that lint.
fn code_action_lookup<const L: usize>() {
    let src = any_src::<L>();
    let s: usize = kani::any();
    let e: usize = kani::any();
    kani::assume(s < e && e <= L);
    let lint_span = Span { start: s, end: e };
    // the client asks at [i, j] with s <= i <= j <= e, i < e (a cursor or a selection inside the diagnostic)
    let i: usize = kani::any();
    let j: usize = kani::any();
    kani::assume(s <= i && i <= j && j <= e && i < e);
    let req = span_to_range(&src, Span { start: i, end: j });
    let probe = range_to_span(&src, req).with_len(1);
    assert!(lint_span.overlaps_with(probe), "code-action request inside the diagnostic selects the lint");
    kani::cover!(L < 2 || req.start.line == 1, "request (L>=2: on a later line) reachable");
}

macro_rules! inst {
    ($name:ident, $f:ident, $l:expr, $u:expr) => {
        #[kani::proof]
        #[kani::unwind($u)]
        fn $name() {
            $f::<$l>();
        }
    };
}

// HV: {"name":"c08_span_to_range_l0","prop":"C08","kernel":"span_to_range vs UTF-16 reference","bound":"empty text","fns":["pos_conv::span_to_range","pos_conv::index_to_position"]}
inst!(c08_span_to_range_l0, span_to_range_matches_ref, 0, 3);
// HV: {"name":"c08_span_to_range_l1","prop":"C08","kernel":"span_to_range vs UTF-16 reference","bound":"all texts of 1 char over {LF,CR,a,U+1F600,TAB,e-acute} x all spans","fns":["pos_conv::span_to_range","pos_conv::index_to_position"]}
inst!(c08_span_to_range_l1, span_to_range_matches_ref, 1, 4);
// HV: {"name":"c08_span_to_range_l2","prop":"C08","kernel":"span_to_range vs UTF-16 reference","bound":"all texts of 2 chars over the 6-symbol alphabet x all spans","fns":["pos_conv::span_to_range","pos_conv::index_to_position"]}
inst!(c08_span_to_range_l2, span_to_range_matches_ref, 2, 5);
// HV: {"name":"c08_span_to_range_l3","prop":"C08","kernel":"span_to_range vs UTF-16 reference","bound":"all texts of 3 chars over the 6-symbol alphabet x all spans","fns":["pos_conv::span_to_range","pos_conv::index_to_position"],"cost":3}
inst!(c08_span_to_range_l3, span_to_range_matches_ref, 3, 6);
// HV: {"name":"c08_span_to_range_l4","prop":"C08","tier":"thorough","kernel":"span_to_range vs UTF-16 reference","bound":"all texts of 4 chars over the 6-symbol alphabet x all spans","fns":["pos_conv::span_to_range","pos_conv::index_to_position"],"cost":5}
inst!(c08_span_to_range_l4, span_to_range_matches_ref, 4, 7);
// HV: {"name":"c08_span_to_range_l5","prop":"C08","tier":"thorough","kernel":"span_to_range vs UTF-16 reference","bound":"all texts of 5 chars over the 6-symbol alphabet x all spans","fns":["pos_conv::span_to_range","pos_conv::index_to_position"],"cost":8}
inst!(c08_span_to_range_l5, span_to_range_matches_ref, 5, 8);

// HV: {"name":"c08_roundtrip_l0","prop":"C08","kernel":"range_to_span . span_to_range == id","bound":"empty text","fns":["pos_conv::range_to_span","pos_conv::position_to_index","pos_conv::span_to_range","harper_core::span::Span::new"]}
inst!(c08_roundtrip_l0, roundtrip, 0, 3);
// HV: {"name":"c08_roundtrip_l1","prop":"C08","kernel":"range_to_span . span_to_range == id","bound":"all texts of 1 char over the 6-symbol alphabet x all spans","fns":["pos_conv::range_to_span","pos_conv::position_to_index","pos_conv::span_to_range"]}
inst!(c08_roundtrip_l1, roundtrip, 1, 4);
// HV: {"name":"c08_roundtrip_l2","prop":"C08","kernel":"range_to_span . span_to_range == id","bound":"all texts of 2 chars over the 6-symbol alphabet x all spans","fns":["pos_conv::range_to_span","pos_conv::position_to_index","pos_conv::span_to_range"]}
inst!(c08_roundtrip_l2, roundtrip, 2, 5);
// HV: {"name":"c08_roundtrip_l3","prop":"C08","kernel":"range_to_span . span_to_range == id","bound":"all texts of 3 chars over the 6-symbol alphabet x all spans","fns":["pos_conv::range_to_span","pos_conv::position_to_index","pos_conv::span_to_range"],"cost":4}
inst!(c08_roundtrip_l3, roundtrip, 3, 6);
// HV: {"name":"c08_roundtrip_l4","prop":"C08","tier":"thorough","kernel":"range_to_span . span_to_range == id","bound":"all texts of 4 chars over the 6-symbol alphabet x all spans","fns":["pos_conv::range_to_span","pos_conv::position_to_index","pos_conv::span_to_range"],"cost":8}
inst!(c08_roundtrip_l4, roundtrip, 4, 7);

// HV: {"name":"c08_code_action_l1","prop":"C08","kernel":"code-action lookup (generate_code_actions filter)","bound":"all texts of 1 char x all non-empty lint spans x all request ranges inside the span","fns":["pos_conv::range_to_span","pos_conv::span_to_range","harper_core::span::Span::with_len","harper_core::span::Span::overlaps_with"]}
inst!(c08_code_action_l1, code_action_lookup, 1, 4);
// HV: {"name":"c08_code_action_l2","prop":"C08","kernel":"code-action lookup (generate_code_actions filter)","bound":"all texts of 2 chars x all non-empty lint spans x all request ranges inside the span","fns":["pos_conv::range_to_span","pos_conv::span_to_range","harper_core::span::Span::with_len","harper_core::span::Span::overlaps_with"]}
inst!(c08_code_action_l2, code_action_lookup, 2, 5);
// HV: {"name":"c08_code_action_l3","prop":"C08","kernel":"code-action lookup (generate_code_actions filter)","bound":"all texts of 3 chars x all non-empty lint spans x all request ranges inside the span","fns":["pos_conv::range_to_span","pos_conv::span_to_range","harper_core::span::Span::with_len","harper_core::span::Span::overlaps_with"],"cost":4}
inst!(c08_code_action_l3, code_action_lookup, 3, 6);
// HV: {"name":"c08_code_action_l4","prop":"C08","tier":"thorough","kernel":"code-action lookup (generate_code_actions filter)","bound":"all texts of 4 chars x all non-empty lint spans x all request ranges inside the span","fns":["pos_conv::range_to_span","pos_conv::span_to_range","harper_core::span::Span::with_len","harper_core::span::Span::overlaps_with"],"cost":8}
inst!(c08_code_action_l4, code_action_lookup, 4, 7);

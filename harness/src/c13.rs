//! C13 — overlap resolution returns a conflict-free subset of the lints.
use crate::util::*;
use harper_core::linting::{Lint, LintKind};
use harper_core::{remove_overlaps, Span, Token, TokenKind, VecExt};
use std::collections::VecDeque;

const TEXT: usize = 8;

/// A lint with a symbolic span inside an 8-char text; `priority` carries a distinct tag so the
/// output can be matched against the input ("nothing invented, nothing altered").
fn any_lint(tag: u8) -> Lint {
    Lint {
        span: any_span_within(TEXT),
        lint_kind: LintKind::Miscellaneous,
        suggestions: Vec::new(),
        message: String::new(),
        priority: tag,
    }
}

fn check_overlaps<const N: usize>() {
    let input: [Lint; N] = core::array::from_fn(|i| any_lint(i as u8));
    let spans: [Span; N] = core::array::from_fn(|i| input[i].span);
    let mut v: Vec<Lint> = Vec::with_capacity(N);
    for l in input.iter() {
        v.push(l.clone());
    }
    remove_overlaps(&mut v);

    assert!(v.len() <= N, "nothing invented");
    let mut kept = [false; N];
    let mut i = 0;
    while i < v.len() {
        let t = v[i].priority as usize;
        assert!(t < N, "every output lint is an input lint");
        assert!(!kept[t], "no input lint is duplicated");
        kept[t] = true;
        assert!(v[i].span == spans[t], "lints are not altered");
        i += 1;
    }
    // conflict-free
    let mut a = 0;
    while a < N {
        let mut b = a + 1;
        while b < N {
            if kept[a] && kept[b] {
                assert!(!spans[a].overlaps_with(spans[b]), "kept lints do not overlap");
                let idx: usize = kani::any();
                assert!(!(spans[a].contains(idx) && spans[b].contains(idx)), "kept lints share no character");
            }
            b += 1;
        }
        a += 1;
    }
    // every dropped lint starts inside (or at the start of) a kept one
    let mut d = 0;
    while d < N {
        if !kept[d] {
            let mut justified = false;
            let mut k = 0;
            while k < N {
                if kept[k] && spans[k].start <= spans[d].start && spans[d].start < spans[k].end {
                    justified = true;
                }
                k += 1;
            }
            assert!(justified, "a dropped lint starts inside a kept lint");
        }
        d += 1;
    }
    kani::cover!(N < 2 || v.len() == N - 1, "one lint dropped (N >= 2)");
    kani::cover!(v.len() == N, "all lints kept");
    core::mem::forget(v);
    core::mem::forget(input);
}

macro_rules! inst1 {
    ($name:ident, $f:ident, $l:expr, $u:expr) => {
        #[kani::proof]
        #[kani::unwind($u)]
        fn $name() {
            $f::<$l>();
        }
    };
}

// HV: {"name":"c13_remove_overlaps_n0","prop":"C13","kernel":"remove_overlaps","bound":"0 lints","fns":["harper_core::remove_overlaps"]}
#[kani::proof]
#[kani::unwind(3)]
fn c13_remove_overlaps_n0() {
    let mut v: Vec<Lint> = Vec::new();
    remove_overlaps(&mut v);
    assert!(v.is_empty(), "nothing invented");
}
// HV: {"name":"c13_remove_overlaps_n1","prop":"C13","kernel":"remove_overlaps","bound":"1 lint, any span in an 8-char text (incl. zero-width)","fns":["harper_core::remove_overlaps"]}
inst1!(c13_remove_overlaps_n1, check_overlaps, 1, 4);
// HV: {"name":"c13_remove_overlaps_n2","prop":"C13","kernel":"remove_overlaps","bound":"2 lints, any spans in an 8-char text (nested, touching, equal, zero-width), Vec<Lint> instantiation","fns":["harper_core::remove_overlaps","harper_core::vec_ext::VecExt::remove_indices","alloc::slice::sort_by_key"],"cost":4}
inst1!(c13_remove_overlaps_n2, check_overlaps, 2, 5);
// (not admitted: out of memory at 44 GB after 643 s; see DESIGN.md) {"name":"c13_remove_overlaps_n3","prop":"C13","tier":"thorough","kernel":"remove_overlaps","bound":"3 lints, any spans in an 8-char text (chains through the running end)","fns":["harper_core::remove_overlaps","harper_core::vec_ext::VecExt::remove_indices","alloc::slice::sort_by_key"],"cost":10,"mem_gb":44,"timeout_s":5400}
inst1!(c13_remove_overlaps_n3, check_overlaps, 3, 6);

// ------------------------------------------------------------------ VecExt::remove_indices
/// `remove_indices` with any strictly increasing index list removes exactly those positions.
fn remove_indices_tokens<const N: usize, const K: usize>() {
    let toks: [Token; N] = core::array::from_fn(|i| Token {
        span: Span { start: i, end: i + 1 },
        kind: any_token_kind(),
    });
    let idx: [usize; K] = core::array::from_fn(|_| kani::any());
    let mut j = 0;
    while j < K {
        kani::assume(idx[j] < N + 1); // may also name a position one past the end
        if j > 0 {
            kani::assume(idx[j - 1] < idx[j]);
        }
        j += 1;
    }
    let mut v: Vec<Token> = Vec::with_capacity(N);
    for t in toks.iter() {
        v.push(t.clone());
    }
    let mut dq = VecDeque::with_capacity(K + 1);
    for x in idx.iter() {
        dq.push_back(*x);
    }
    v.remove_indices(dq);
    // reference: keep position p iff p not in idx, order preserved
    let mut out = 0;
    let mut p = 0;
    while p < N {
        let mut removed = false;
        let mut q = 0;
        while q < K {
            removed |= idx[q] == p;
            q += 1;
        }
        if !removed {
            assert!(out < v.len(), "kept element present");
            assert!(v[out].span.start == p, "kept elements are the non-listed ones, in order");
            out += 1;
        }
        p += 1;
    }
    assert!(v.len() == out, "nothing else remains");
    core::mem::forget(v);
    core::mem::forget(toks);
}
macro_rules! inst2 {
    ($name:ident, $f:ident, $l:expr, $r:expr, $u:expr) => {
        #[kani::proof]
        #[kani::unwind($u)]
        fn $name() {
            $f::<$l, $r>();
        }
    };
}
// HV: {"name":"c13_remove_indices_n1_k1","prop":"C13","kernel":"VecExt::remove_indices (Vec<Token>)","bound":"1 token, 1 index","fns":["harper_core::vec_ext::VecExt::remove_indices"]}
inst2!(c13_remove_indices_n1_k1, remove_indices_tokens, 1, 1, 4);
// HV: {"name":"c13_remove_indices_n2_k0","prop":"C13","kernel":"VecExt::remove_indices (Vec<Token>)","bound":"2 tokens, empty index list","fns":["harper_core::vec_ext::VecExt::remove_indices"]}
inst2!(c13_remove_indices_n2_k0, remove_indices_tokens, 2, 0, 5);
// HV: {"name":"c13_remove_indices_n2_k1","prop":"C13","kernel":"VecExt::remove_indices (Vec<Token>)","bound":"2 tokens, any 1 index in 0..=2","fns":["harper_core::vec_ext::VecExt::remove_indices"]}
inst2!(c13_remove_indices_n2_k1, remove_indices_tokens, 2, 1, 5);
// HV: {"name":"c13_remove_indices_n2_k2","prop":"C13","kernel":"VecExt::remove_indices (Vec<Token>)","bound":"2 tokens, any 2 increasing indices in 0..=2","fns":["harper_core::vec_ext::VecExt::remove_indices"]}
inst2!(c13_remove_indices_n2_k2, remove_indices_tokens, 2, 2, 5);
// HV: {"name":"c13_remove_indices_n3_k2","prop":"C13","kernel":"VecExt::remove_indices (Vec<Token>)","bound":"3 tokens, any 2 increasing indices in 0..=3","fns":["harper_core::vec_ext::VecExt::remove_indices"],"cost":3}
inst2!(c13_remove_indices_n3_k2, remove_indices_tokens, 3, 2, 6);
// HV: {"name":"c13_remove_indices_n4_k2","prop":"C13","tier":"thorough","kernel":"VecExt::remove_indices (Vec<Token>)","bound":"4 tokens, any 2 increasing indices in 0..=4","fns":["harper_core::vec_ext::VecExt::remove_indices"],"cost":5}
inst2!(c13_remove_indices_n4_k2, remove_indices_tokens, 4, 2, 7);

//! C15 — the distance routine behind fuzzy search is a true Levenshtein distance.
use crate::util::*;
use harper_core::verif_hooks::{edit_distance, edit_distance_min_alloc};

/// Textbook recursive definition (independent of the row-based implementation).
fn lev(a: &[char], b: &[char]) -> u8 {
    if a.is_empty() {
        return b.len() as u8;
    }
    if b.is_empty() {
        return a.len() as u8;
    }
    if a[0] == b[0] {
        return lev(&a[1..], &b[1..]);
    }
    let x = lev(&a[1..], b);
    let y = lev(a, &b[1..]);
    let z = lev(&a[1..], &b[1..]);
    1 + x.min(y).min(z)
}

fn dist_matches_spec<const A: usize, const B: usize>() {
    let a: [char; A] = any_chars::<A>();
    let b: [char; B] = any_chars::<B>();
    let d = edit_distance(&a, &b);
    assert!(d == lev(&a, &b), "edit_distance equals the Levenshtein distance");
    // the allocation-free variant must not depend on what the scratch rows held before
    let mut prev: Vec<u8> = Vec::with_capacity(A + 2);
    let mut cur: Vec<u8> = Vec::with_capacity(A + 2);
    let junk: u8 = kani::any();
    let plen: usize = kani::any();
    kani::assume(plen <= A + 2);
    let mut i = 0;
    while i < plen {
        prev.push(junk);
        i += 1;
    }
    let clen: usize = kani::any();
    kani::assume(clen <= A + 2);
    let mut i = 0;
    while i < clen {
        cur.push(kani::any());
        i += 1;
    }
    let d2 = edit_distance_min_alloc(&a, &b, &mut prev, &mut cur);
    assert!(d2 == d, "result independent of the scratch buffers' previous contents");
    // symmetric
    assert!(edit_distance(&b, &a) == d, "distance is symmetric");
    kani::cover!(A < 2 || B < 2 || d == 2, "distance 2 reachable (both lengths >= 2)");
    core::mem::forget(prev);
    core::mem::forget(cur);
}

macro_rules! inst2 {
    ($name:ident, $f:ident, $l:expr, $r:expr, $u:expr) => {
        #[kani::proof]
        #[kani::unwind($u)]
        fn $name() {
            $f::<$l, $r>();
        }
    };
}
// HV: {"name":"c15_edit_distance_0x0","prop":"C15","kernel":"edit_distance / edit_distance_min_alloc","bound":"both strings empty; scratch buffers of any length 0..=2","fns":["harper_core::edit_distance::edit_distance","harper_core::edit_distance::edit_distance_min_alloc"]}
inst2!(c15_edit_distance_0x0, dist_matches_spec, 0, 0, 5);
// HV: {"name":"c15_edit_distance_0x2","prop":"C15","kernel":"edit_distance / edit_distance_min_alloc","bound":"empty vs 2 chars (any char)","fns":["harper_core::edit_distance::edit_distance","harper_core::edit_distance::edit_distance_min_alloc"]}
inst2!(c15_edit_distance_0x2, dist_matches_spec, 0, 2, 5);
// HV: {"name":"c15_edit_distance_1x1","prop":"C15","kernel":"edit_distance / edit_distance_min_alloc","bound":"1 x 1 chars (any char)","fns":["harper_core::edit_distance::edit_distance","harper_core::edit_distance::edit_distance_min_alloc"]}
inst2!(c15_edit_distance_1x1, dist_matches_spec, 1, 1, 5);
// HV: {"name":"c15_edit_distance_2x1","prop":"C15","kernel":"edit_distance / edit_distance_min_alloc","bound":"2 x 1 chars (any char)","fns":["harper_core::edit_distance::edit_distance","harper_core::edit_distance::edit_distance_min_alloc"]}
inst2!(c15_edit_distance_2x1, dist_matches_spec, 2, 1, 6);
// HV: {"name":"c15_edit_distance_2x2","prop":"C15","kernel":"edit_distance / edit_distance_min_alloc","bound":"2 x 2 chars (any char)","fns":["harper_core::edit_distance::edit_distance","harper_core::edit_distance::edit_distance_min_alloc"],"cost":2}
inst2!(c15_edit_distance_2x2, dist_matches_spec, 2, 2, 6);
// HV: {"name":"c15_edit_distance_2x3","prop":"C15","kernel":"edit_distance / edit_distance_min_alloc","bound":"2 x 3 chars (any char)","fns":["harper_core::edit_distance::edit_distance","harper_core::edit_distance::edit_distance_min_alloc"],"cost":3}
inst2!(c15_edit_distance_2x3, dist_matches_spec, 2, 3, 7);
// HV: {"name":"c15_edit_distance_3x3","prop":"C15","kernel":"edit_distance / edit_distance_min_alloc","bound":"3 x 3 chars (any char)","fns":["harper_core::edit_distance::edit_distance","harper_core::edit_distance::edit_distance_min_alloc"],"cost":5}
inst2!(c15_edit_distance_3x3, dist_matches_spec, 3, 3, 7);
// HV: {"name":"c15_edit_distance_4x3","prop":"C15","tier":"thorough","kernel":"edit_distance / edit_distance_min_alloc","bound":"4 x 3 chars (any char)","fns":["harper_core::edit_distance::edit_distance","harper_core::edit_distance::edit_distance_min_alloc"],"cost":7}
inst2!(c15_edit_distance_4x3, dist_matches_spec, 4, 3, 8);
// HV: {"name":"c15_edit_distance_4x4","prop":"C15","tier":"thorough","kernel":"edit_distance / edit_distance_min_alloc","bound":"4 x 4 chars (any char)","fns":["harper_core::edit_distance::edit_distance","harper_core::edit_distance::edit_distance_min_alloc"],"cost":9}
inst2!(c15_edit_distance_4x4, dist_matches_spec, 4, 4, 8);

//! C03 — every lint points into the text; every suggestion is a well-defined local edit.
use crate::util::*;
use harper_core::linting::Suggestion;
use harper_core::{Span, Token, TokenKind, TokenStringExt};

// ------------------------------------------------------------------ Suggestion::apply
/// Reference splice `src[..start] ++ mid ++ src[tail_from..]`, compared element-wise.
fn assert_splice(got: &Vec<char>, src: &[char], start: usize, mid: &[char], tail_from: usize) {
    let want_len = start + mid.len() + (src.len() - tail_from);
    assert!(got.len() == want_len, "edited text has the expected length");
    let mut i = 0;
    while i < start {
        assert!(got[i] == src[i], "text before the span is preserved");
        i += 1;
    }
    let mut k = 0;
    while k < mid.len() {
        assert!(got[start + k] == mid[k], "inserted text is exactly the suggestion's text");
        k += 1;
    }
    let mut t = tail_from;
    while t < src.len() {
        assert!(got[start + mid.len() + (t - tail_from)] == src[t], "text after the span is preserved");
        t += 1;
    }
}

/// `Remove` with a fully symbolic span inside a text of `L` arbitrary chars.
fn apply_remove<const L: usize>() {
    let src: [char; L] = any_chars::<L>();
    let span = any_span_within(L);
    let mut text = src.to_vec();
    Suggestion::Remove.apply(span, &mut text);
    assert_splice(&text, &src, span.start, &[], span.end);
    kani::cover!(L == 0 || (span.start == 0 && span.end == L), "removing the whole text reachable");
    core::mem::forget(text);
}

/// `ReplaceWith`/`InsertAfter` with `R` replacement chars; every span `start <= end <= L` is
/// enumerated by a concrete loop (a symbolic index into the heap vector exhausts memory),
/// all characters stay symbolic.
fn apply_replace<const L: usize, const R: usize>() {
    let src: [char; L] = any_chars::<L>();
    let rep: [char; R] = any_chars::<R>();
    let sug = Suggestion::ReplaceWith(rep.to_vec());
    let mut start = 0;
    while start <= L {
        let mut end = start;
        while end <= L {
            let mut text = src.to_vec();
            sug.apply(Span { start, end }, &mut text);
            assert_splice(&text, &src, start, &rep, end);
            core::mem::forget(text);
            end += 1;
        }
        start += 1;
    }
    core::mem::forget(sug);
}

fn apply_insert<const L: usize, const R: usize>() {
    let src: [char; L] = any_chars::<L>();
    let rep: [char; R] = any_chars::<R>();
    let sug = Suggestion::InsertAfter(rep.to_vec());
    let mut start = 0;
    while start <= L {
        let mut end = start;
        while end <= L {
            let mut text = src.to_vec();
            sug.apply(Span { start, end }, &mut text);
            // insert-after keeps the flagged characters and adds the text right after them
            assert_splice(&text, &src, end, &rep, end);
            core::mem::forget(text);
            end += 1;
        }
        start += 1;
    }
    core::mem::forget(sug);
}

macro_rules! inst1 {
    ($name:ident, $f:ident, $l:expr, $u:expr) => {
        #[kani::proof]
        #[kani::unwind($u)]
        fn $name() {
            $f::<$l>();
        }
    };
}
macro_rules! inst2 {
    ($name:ident, $f:ident, $l:expr, $r:expr, $u:expr) => {
        #[kani::proof]
        #[kani::unwind($u)]
        fn $name() {
            $f::<$l, $r>();
        }
    };
}

// HV: {"name":"c03_apply_remove_l0","prop":"C03","kernel":"Suggestion::apply(Remove)","bound":"empty text, span 0..0","fns":["harper_core::linting::suggestion::Suggestion::apply"]}
inst1!(c03_apply_remove_l0, apply_remove, 0, 3);
// HV: {"name":"c03_apply_remove_l1","prop":"C03","kernel":"Suggestion::apply(Remove)","bound":"all texts of 1 char (any char) x all spans inside","fns":["harper_core::linting::suggestion::Suggestion::apply"]}
inst1!(c03_apply_remove_l1, apply_remove, 1, 4);
// HV: {"name":"c03_apply_remove_l2","prop":"C03","kernel":"Suggestion::apply(Remove)","bound":"all texts of 2 chars (any char) x all spans inside","fns":["harper_core::linting::suggestion::Suggestion::apply"]}
inst1!(c03_apply_remove_l2, apply_remove, 2, 5);
// HV: {"name":"c03_apply_remove_l3","prop":"C03","kernel":"Suggestion::apply(Remove)","bound":"all texts of 3 chars (any char) x all spans inside","fns":["harper_core::linting::suggestion::Suggestion::apply"],"cost":3}
inst1!(c03_apply_remove_l3, apply_remove, 3, 6);
// HV: {"name":"c03_apply_remove_l4","prop":"C03","kernel":"Suggestion::apply(Remove)","bound":"all texts of 4 chars (any char) x all spans inside","fns":["harper_core::linting::suggestion::Suggestion::apply"],"cost":6}
inst1!(c03_apply_remove_l4, apply_remove, 4, 7);
// HV: {"name":"c03_apply_remove_l5","prop":"C03","tier":"thorough","kernel":"Suggestion::apply(Remove)","bound":"all texts of 5 chars (any char) x all spans inside","fns":["harper_core::linting::suggestion::Suggestion::apply"],"cost":9}
inst1!(c03_apply_remove_l5, apply_remove, 5, 8);

// HV: {"name":"c03_apply_replace_l0_r0","prop":"C03","kernel":"Suggestion::apply(ReplaceWith)","bound":"empty text, empty replacement","fns":["harper_core::linting::suggestion::Suggestion::apply"]}
inst2!(c03_apply_replace_l0_r0, apply_replace, 0, 0, 3);
// HV: {"name":"c03_apply_replace_l0_r1","prop":"C03","kernel":"Suggestion::apply(ReplaceWith)","bound":"empty text, 1-char replacement (any char)","fns":["harper_core::linting::suggestion::Suggestion::apply"]}
inst2!(c03_apply_replace_l0_r1, apply_replace, 0, 1, 4);
// HV: {"name":"c03_apply_replace_l1_r1","prop":"C03","kernel":"Suggestion::apply(ReplaceWith)","bound":"texts of 1 char x replacement of 1 char (any chars) x all 3 spans (incl. the equal-length in-place path)","fns":["harper_core::linting::suggestion::Suggestion::apply"]}
inst2!(c03_apply_replace_l1_r1, apply_replace, 1, 1, 5);
// HV: {"name":"c03_apply_replace_l2_r0","prop":"C03","kernel":"Suggestion::apply(ReplaceWith)","bound":"texts of 2 chars x empty replacement x all 6 spans","fns":["harper_core::linting::suggestion::Suggestion::apply"]}
inst2!(c03_apply_replace_l2_r0, apply_replace, 2, 0, 5);
// HV: {"name":"c03_apply_replace_l2_r1","prop":"C03","kernel":"Suggestion::apply(ReplaceWith)","bound":"texts of 2 chars x replacement of 1 char (any chars) x all 6 spans","fns":["harper_core::linting::suggestion::Suggestion::apply"],"cost":2}
inst2!(c03_apply_replace_l2_r1, apply_replace, 2, 1, 5);
// HV: {"name":"c03_apply_replace_l2_r2","prop":"C03","kernel":"Suggestion::apply(ReplaceWith)","bound":"texts of 2 chars x replacement of 2 chars (any chars) x all 6 spans","fns":["harper_core::linting::suggestion::Suggestion::apply"],"cost":3}
inst2!(c03_apply_replace_l2_r2, apply_replace, 2, 2, 5);
// HV: {"name":"c03_apply_replace_l3_r1","prop":"C03","kernel":"Suggestion::apply(ReplaceWith)","bound":"texts of 3 chars x replacement of 1 char (any chars) x all 10 spans","fns":["harper_core::linting::suggestion::Suggestion::apply"],"cost":5}
inst2!(c03_apply_replace_l3_r1, apply_replace, 3, 1, 6);
// HV: {"name":"c03_apply_replace_l3_r2","prop":"C03","kernel":"Suggestion::apply(ReplaceWith)","bound":"texts of 3 chars x replacement of 2 chars (any chars) x all 10 spans","fns":["harper_core::linting::suggestion::Suggestion::apply"],"cost":6}
inst2!(c03_apply_replace_l3_r2, apply_replace, 3, 2, 6);
// HV: {"name":"c03_apply_replace_l3_r3","prop":"C03","tier":"thorough","kernel":"Suggestion::apply(ReplaceWith)","bound":"texts of 3 chars x replacement of 3 chars (any chars) x all 10 spans","fns":["harper_core::linting::suggestion::Suggestion::apply"],"cost":7}
inst2!(c03_apply_replace_l3_r3, apply_replace, 3, 3, 6);
// HV: {"name":"c03_apply_replace_l4_r2","prop":"C03","tier":"thorough","kernel":"Suggestion::apply(ReplaceWith)","bound":"texts of 4 chars x replacement of 2 chars (any chars) x all 15 spans","fns":["harper_core::linting::suggestion::Suggestion::apply"],"cost":9}
inst2!(c03_apply_replace_l4_r2, apply_replace, 4, 2, 7);

// HV: {"name":"c03_apply_insert_l0_r1","prop":"C03","kernel":"Suggestion::apply(InsertAfter)","bound":"empty text, 1-char insertion","fns":["harper_core::linting::suggestion::Suggestion::apply"]}
inst2!(c03_apply_insert_l0_r1, apply_insert, 0, 1, 4);
// HV: {"name":"c03_apply_insert_l1_r1","prop":"C03","kernel":"Suggestion::apply(InsertAfter)","bound":"texts of 1 char x insertion of 1 char (any chars) x all 3 spans","fns":["harper_core::linting::suggestion::Suggestion::apply"]}
inst2!(c03_apply_insert_l1_r1, apply_insert, 1, 1, 5);
// HV: {"name":"c03_apply_insert_l2_r1","prop":"C03","kernel":"Suggestion::apply(InsertAfter)","bound":"texts of 2 chars x insertion of 1 char (any chars) x all 6 spans","fns":["harper_core::linting::suggestion::Suggestion::apply"],"cost":2}
inst2!(c03_apply_insert_l2_r1, apply_insert, 2, 1, 5);
// HV: {"name":"c03_apply_insert_l3_r2","prop":"C03","kernel":"Suggestion::apply(InsertAfter)","bound":"texts of 3 chars x insertion of 2 chars (any chars) x all 10 spans","fns":["harper_core::linting::suggestion::Suggestion::apply"],"cost":6}
inst2!(c03_apply_insert_l3_r2, apply_insert, 3, 2, 6);
// HV: {"name":"c03_apply_insert_l4_r2","prop":"C03","tier":"thorough","kernel":"Suggestion::apply(InsertAfter)","bound":"texts of 4 chars x insertion of 2 chars (any chars) x all 15 spans","fns":["harper_core::linting::suggestion::Suggestion::apply"],"cost":9}
inst2!(c03_apply_insert_l4_r2, apply_insert, 4, 2, 7);

// ------------------------------------------------------------------ replace_with_match_case
fn match_case<const V: usize, const T: usize>() {
    let value: [char; V] = any_chars_d::<V>();
    let template: [char; T] = any_chars_d::<T>();
    let s = Suggestion::replace_with_match_case(value.to_vec(), &template);
    match &s {
        Suggestion::ReplaceWith(out) => {
            assert!(out.len() == V, "match-case keeps the length of the replacement");
            let mut i = 0;
            while i < V {
                assert!(out[i].eq_ignore_ascii_case(&value[i]), "match-case only changes ASCII letter case");
                i += 1;
            }
        }
        _ => panic!("replace_with_match_case must build ReplaceWith"),
    }
    core::mem::forget(s);
}
// HV: {"name":"c03_match_case_v2_t1","prop":"C03","kernel":"Suggestion::replace_with_match_case","bound":"value of 2 chars, template of 1 char, chars from domain D","fns":["harper_core::linting::suggestion::Suggestion::replace_with_match_case"]}
inst2!(c03_match_case_v2_t1, match_case, 2, 1, 5);
// HV: {"name":"c03_match_case_v2_t3","prop":"C03","kernel":"Suggestion::replace_with_match_case","bound":"value of 2 chars, template of 3 chars, chars from domain D","fns":["harper_core::linting::suggestion::Suggestion::replace_with_match_case"]}
inst2!(c03_match_case_v2_t3, match_case, 2, 3, 6);
// HV: {"name":"c03_match_case_v3_t3","prop":"C03","tier":"thorough","kernel":"Suggestion::replace_with_match_case","bound":"value of 3 chars, template of 3 chars, chars from domain D","fns":["harper_core::linting::suggestion::Suggestion::replace_with_match_case"]}
inst2!(c03_match_case_v3_t3, match_case, 3, 3, 6);

// ------------------------------------------------------------------ Span algebra (full-width usize)
/// The chunk-cache rebase in `LintGroup::lint`: pull_by(chunk start) when storing, push_by
/// (chunk start) when loading — the identity whenever the lint starts inside the chunk, and
/// from any *other* chunk start `c2` the cached lint lands at `span - c + c2`.
// HV: {"name":"c03_span_rebase","prop":"C03","kernel":"Span::pull_by/push_by/pulled_by/pushed_by/with_offset","bound":"all usize values with start <= end (no length bound)","fns":["harper_core::span::Span::pull_by","harper_core::span::Span::push_by","harper_core::span::Span::pulled_by","harper_core::span::Span::pushed_by","harper_core::span::Span::with_offset"]}
#[kani::proof]
fn c03_span_rebase() {
    let s: usize = kani::any();
    let e: usize = kani::any();
    let c: usize = kani::any();
    kani::assume(s <= e && c <= s);
    let orig = Span { start: s, end: e };
    let mut x = orig;
    x.pull_by(c);
    assert!(x.start == s - c && x.end == e - c && x.len() == orig.len());
    let rel = x;
    x.push_by(c);
    assert!(x == orig, "pull_by then push_by is the identity");
    // a cache hit replayed at another chunk start
    let c2: usize = kani::any();
    kani::assume(c2 <= usize::MAX - (e - c));
    let mut y = rel;
    y.push_by(c2);
    assert!(y.start == c2 + (s - c) && y.len() == orig.len());
    assert!(rel.pushed_by(c2) == y && rel.with_offset(c2) == y);
    // pulled_by is the checked form
    let b: usize = kani::any();
    match orig.pulled_by(b) {
        None => assert!(b > s),
        Some(p) => assert!(b <= s && p.start == s - b && p.end == e - b),
    }
    kani::cover!(c > 0 && c2 > c && e > s, "non-trivial rebase reachable");
}

// HV: {"name":"c03_span_overlap_contains","prop":"C03","kernel":"Span::overlaps_with/contains/len/is_empty/with_len/set_len/new_with_len/new","bound":"all usize values with start <= end (no length bound)","fns":["harper_core::span::Span::overlaps_with","harper_core::span::Span::contains","harper_core::span::Span::with_len","harper_core::span::Span::set_len","harper_core::span::Span::new_with_len","harper_core::span::Span::new"]}
#[kani::proof]
fn c03_span_overlap_contains() {
    let a = Span { start: kani::any(), end: kani::any() };
    let b = Span { start: kani::any(), end: kani::any() };
    kani::assume(a.start <= a.end && b.start <= b.end);
    assert!(a.overlaps_with(b) == b.overlaps_with(a), "overlap is symmetric");
    // non-empty spans overlap iff they share an index
    let i: usize = kani::any();
    if a.contains(i) && b.contains(i) {
        assert!(a.overlaps_with(b), "sharing an index implies overlap");
    }
    if !a.is_empty() && !b.is_empty() && a.overlaps_with(b) {
        let w = if a.start > b.start { a.start } else { b.start };
        assert!(a.contains(w) && b.contains(w), "overlap of non-empty spans yields a shared index");
    }
    assert!(a.contains(i) == (a.start <= i && i < a.end));
    assert!(a.is_empty() == (a.start == a.end) && a.len() == a.end - a.start);
    let n: usize = kani::any();
    kani::assume(n <= usize::MAX - a.start);
    let w = a.with_len(n);
    assert!(w.start == a.start && w.end == a.start + n && w.len() == n);
    assert!(Span::new_with_len(a.start, n) == w);
    let mut m = a;
    m.set_len(n);
    assert!(m == w);
    assert!(Span::new(a.start, a.end) == a);
    kani::cover!(a.overlaps_with(b) && a.start < b.start && b.end < a.end, "nested overlap reachable");
}

/// `try_get_content` never panics; `get_content` succeeds exactly on in-bounds (or empty) spans
/// and returns the characters at the span.
// HV: {"name":"c03_span_get_content","prop":"C03","kernel":"Span::try_get_content","bound":"all usize spans (also start > end) over a source of length 0..=4 (any chars)","fns":["harper_core::span::Span::try_get_content"]}
#[kani::proof]
#[kani::unwind(6)]
fn c03_span_get_content() {
    let buf: [char; 4] = any_chars::<4>();
    let n: usize = kani::any();
    kani::assume(n <= 4);
    let src = &buf[..n];
    let sp = Span { start: kani::any(), end: kani::any() };
    // the degenerate start > end case makes len() underflow (dev profile) - callers never build it (Span::new)
    kani::assume(sp.start <= sp.end);
    match sp.try_get_content(src) {
        Some(c) => {
            assert!(sp.is_empty() || (sp.end <= n));
            if !sp.is_empty() {
                assert!(c.len() == sp.len());
                let k: usize = kani::any();
                kani::assume(k < c.len());
                assert!(c[k] == src[sp.start + k]);
            } else {
                assert!(c.is_empty());
            }
        }
        None => assert!(!sp.is_empty() && (sp.start >= n || sp.end > n)),
    }
    kani::cover!(sp.end == n && n == 4 && sp.start == 1, "span touching the end of the text reachable");
}

// ------------------------------------------------------------------ TokenStringExt::span (hull of matched tokens)
fn token_hull<const N: usize>() {
    const SRC: usize = 8;
    // the hull does not depend on token kinds: keep them concrete, spans fully symbolic
    let toks: [Token; N] = core::array::from_fn(|_| Token {
        span: any_span_within(SRC),
        kind: TokenKind::Word(None),
    });
    let hull = toks.span();
    if N == 0 {
        assert!(hull.is_none());
    } else {
        let h = hull.unwrap();
        assert!(h.start <= h.end && h.end <= SRC, "hull lies inside the text");
        let k: usize = kani::any();
        kani::assume(k < N);
        assert!(h.start <= toks[k].span.start && toks[k].span.end <= h.end, "hull contains every token");
        // tight: both ends are attained by some token
        let mut lo = false;
        let mut hi = false;
        let mut i = 0;
        while i < N {
            lo |= toks[i].span.start == h.start;
            hi |= toks[i].span.end == h.end;
            i += 1;
        }
        assert!(lo && hi, "hull is tight");
    }
    core::mem::forget(toks);
}
// HV: {"name":"c03_token_hull_n0","prop":"C03","kernel":"TokenStringExt::span","bound":"0 tokens","fns":["harper_core::token_string_ext::TokenStringExt::span"]}
inst1!(c03_token_hull_n0, token_hull, 0, 3);
// HV: {"name":"c03_token_hull_n1","prop":"C03","kernel":"TokenStringExt::span","bound":"1 token, any in-bounds span of an 8-char text","fns":["harper_core::token_string_ext::TokenStringExt::span"]}
inst1!(c03_token_hull_n1, token_hull, 1, 4);
// HV: {"name":"c03_token_hull_n2","prop":"C03","kernel":"TokenStringExt::span","bound":"2 tokens, any in-bounds spans (unordered) of an 8-char text","fns":["harper_core::token_string_ext::TokenStringExt::span"],"cost":3}
inst1!(c03_token_hull_n2, token_hull, 2, 6);
// HV: {"name":"c03_token_hull_n3","prop":"C03","tier":"thorough","kernel":"TokenStringExt::span","bound":"3 tokens, any in-bounds spans (unordered) of an 8-char text","fns":["harper_core::token_string_ext::TokenStringExt::span"],"cost":6}
inst1!(c03_token_hull_n3, token_hull, 3, 8);
// HV: {"name":"c03_token_hull_n4","prop":"C03","tier":"thorough","kernel":"TokenStringExt::span","bound":"4 tokens, any in-bounds spans (unordered) of an 8-char text","fns":["harper_core::token_string_ext::TokenStringExt::span"],"cost":9,"mem_gb":30,"mem_expect_gb":14}
inst1!(c03_token_hull_n4, token_hull, 4, 10);

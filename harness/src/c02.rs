//! C02 — tokens are in bounds, ordered, disjoint, and mean what their text says.
use crate::util::*;
use harper_core::parsers::{Parser, PlainEnglish};
use harper_core::verif_hooks as hk;
use harper_core::verif_hooks::FoundToken;
use harper_core::{Currency, Document, Lrc, Number, Punctuation, Quote, Span, Token, TokenKind};

macro_rules! inst1 {
    ($name:ident, $f:ident, $l:expr, $u:expr) => {
        #[kani::proof]
        #[kani::unwind($u)]
        fn $name() {
            $f::<$l>();
        }
    };
    // with the Unicode table look-ups replaced by nondeterministic stubs (util::stubs)
    ($name:ident, $f:ident, $l:expr, $u:expr, stubbed) => {
        #[kani::proof]
        #[kani::unwind($u)]
        #[kani::stub(core::unicode::unicode_data::alphabetic::lookup, crate::util::stubs::any_bool_for_char)]
        #[kani::stub(core::unicode::unicode_data::n::lookup, crate::util::stubs::any_bool_for_char)]
        #[kani::stub(unicode_script::tables::tables_impl::get_script, crate::util::stubs::any_script)]
        fn $name() {
            $f::<$l>();
        }
    };
}

// ------------------------------------------------------------------ whitespace lexers: kind == what the text says
fn shape_run<const L: usize>(f: fn(&[char]) -> Option<FoundToken>, ch: char, per: usize, newline: bool) {
    let src: [char; L] = any_chars::<L>();
    // reference: length of the maximal run of `ch` at the start
    let mut run = 0;
    while run < L && src[run] == ch {
        run += 1;
    }
    match f(&src) {
        None => assert!(run == 0, "a run of the character is always lexed"),
        Some(ft) => {
            assert!(run > 0 && ft.next_index == run, "the token covers exactly the maximal run");
            // (no `==` on TokenKind: its derived PartialEq reaches Option<Tense>::eq, which crashes the Kani compiler)
            if newline {
                assert!(matches!(ft.token, TokenKind::Newline(k) if k == run), "Newline(k) counts the line feeds it covers");
            } else {
                assert!(matches!(ft.token, TokenKind::Space(k) if k == run * per), "Space(k) counts the blanks it covers");
            }
            core::mem::forget(ft);
        }
    }
    kani::cover!(run == L, "text made of the run only reachable");
}
fn spaces_shape<const L: usize>() {
    shape_run::<L>(hk::lex_spaces, ' ', 1, false);
}
fn tabs_shape<const L: usize>() {
    shape_run::<L>(hk::lex_tabs, '\t', 2, false);
}
fn newlines_shape<const L: usize>() {
    shape_run::<L>(hk::lex_newlines, '\n', 1, true);
}
// HV: {"name":"c02_spaces_shape_l3","prop":"C02","kernel":"lex_spaces","bound":"every text of 3 chars (any Unicode scalar)","fns":["harper_core::lexing::lex_spaces"]}
inst1!(c02_spaces_shape_l3, spaces_shape, 3, 6);
// HV: {"name":"c02_spaces_shape_l5","prop":"C02","tier":"thorough","kernel":"lex_spaces","bound":"every text of 5 chars (any Unicode scalar)","fns":["harper_core::lexing::lex_spaces"]}
inst1!(c02_spaces_shape_l5, spaces_shape, 5, 8);
// HV: {"name":"c02_tabs_shape_l3","prop":"C02","kernel":"lex_tabs","bound":"every text of 3 chars (any Unicode scalar)","fns":["harper_core::lexing::lex_tabs"]}
inst1!(c02_tabs_shape_l3, tabs_shape, 3, 6);
// HV: {"name":"c02_newlines_shape_l3","prop":"C02","kernel":"lex_newlines","bound":"every text of 3 chars (any Unicode scalar)","fns":["harper_core::lexing::lex_newlines"]}
inst1!(c02_newlines_shape_l3, newlines_shape, 3, 6);
// HV: {"name":"c02_newlines_shape_l5","prop":"C02","tier":"thorough","kernel":"lex_newlines","bound":"every text of 5 chars (any Unicode scalar)","fns":["harper_core::lexing::lex_newlines"]}
inst1!(c02_newlines_shape_l5, newlines_shape, 5, 8);

// ------------------------------------------------------------------ words contain no whitespace
fn word_shape<const L: usize>() {
    let src: [char; L] = any_chars::<L>();
    if let Some(ft) = hk::lex_word(&src) {
        assert!(matches!(ft.token, TokenKind::Word(None)), "lex_word yields a word without metadata");
        let mut i = 0;
        while i < ft.next_index {
            assert!(!src[i].is_whitespace(), "a word contains no whitespace");
            assert!(Punctuation::from_char(src[i]).is_none(), "a word contains no punctuation mark");
            i += 1;
        }
        // (maximality is not asserted: with the table look-ups stubbed, two calls may classify the same char differently)
        kani::cover!(ft.next_index == L, "whole text is one word");
        core::mem::forget(ft);
    }
}
// HV: {"name": "c02_word_shape_l2", "prop": "C02", "kernel": "lex_word", "bound": "every text of 2 chars (any Unicode scalar)", "fns": ["harper_core::lexing::lex_word", "harper_core::char_ext::CharExt::is_english_lingual"], "cost": 4, "stubbing": true, "stubs": ["core::unicode::unicode_data::{alphabetic,n}::lookup -> arbitrary bool", "unicode_script::get_script -> arbitrary of {Latin, non-Latin, unknown}"]}
inst1!(c02_word_shape_l2, word_shape, 2, 26, stubbed);
// HV: {"name": "c02_word_shape_l3", "prop": "C02", "tier": "thorough", "kernel": "lex_word", "bound": "every text of 3 chars (any Unicode scalar)", "fns": ["harper_core::lexing::lex_word", "harper_core::char_ext::CharExt::is_english_lingual"], "cost": 7, "stubbing": true, "stubs": ["core::unicode::unicode_data::{alphabetic,n}::lookup -> arbitrary bool", "unicode_script::get_script -> arbitrary of {Latin, non-Latin, unknown}"]}
inst1!(c02_word_shape_l3, word_shape, 3, 26, stubbed);

fn plural_digit_shape<const L: usize>() {
    let src: [char; L] = any_chars::<L>();
    if let Some(ft) = hk::lex_plural_digit(&src) {
        assert!(matches!(ft.token, TokenKind::Word(None)));
        // shape: one ASCII alphanumeric, optional apostrophe, 's'
        assert!(src[0].is_ascii_alphanumeric());
        assert!(ft.next_index == 2 || ft.next_index == 3);
        assert!(src[ft.next_index - 1] == 's');
        if ft.next_index == 3 {
            assert!(src[1] == '\'');
        }
        let mut i = 0;
        while i < ft.next_index {
            assert!(!src[i].is_whitespace(), "a word contains no whitespace");
            i += 1;
        }
        core::mem::forget(ft);
    }
}
// HV: {"name":"c02_plural_digit_shape_l4","prop":"C02","kernel":"lex_plural_digit","bound":"every text of 4 chars (any Unicode scalar)","fns":["harper_core::lexing::lex_plural_digit"]}
inst1!(c02_plural_digit_shape_l4, plural_digit_shape, 4, 6);

// ------------------------------------------------------------------ punctuation tokens are that punctuation mark
/// Independent table of the punctuation characters (written from the doc comments of the
/// `Punctuation` enum, not from `from_char`).
fn spec_punct(c: char) -> Option<Punctuation> {
    Some(match c {
        '…' => Punctuation::Ellipsis,
        '–' => Punctuation::EnDash,
        '—' => Punctuation::EmDash,
        '&' => Punctuation::Ampersand,
        '.' => Punctuation::Period,
        '!' => Punctuation::Bang,
        '?' => Punctuation::Question,
        ':' => Punctuation::Colon,
        ';' => Punctuation::Semicolon,
        '"' | '“' | '”' => Punctuation::Quote(Quote { twin_loc: None }),
        ',' | '、' | '，' => Punctuation::Comma,
        '-' => Punctuation::Hyphen,
        '[' => Punctuation::OpenSquare,
        ']' => Punctuation::CloseSquare,
        '(' => Punctuation::OpenRound,
        ')' => Punctuation::CloseRound,
        '{' => Punctuation::OpenCurly,
        '}' => Punctuation::CloseCurly,
        '#' => Punctuation::Hash,
        '\'' | '’' => Punctuation::Apostrophe,
        '%' => Punctuation::Percent,
        '/' => Punctuation::ForwardSlash,
        '\\' => Punctuation::Backslash,
        '<' => Punctuation::LessThan,
        '>' => Punctuation::GreaterThan,
        '=' => Punctuation::Equal,
        '*' => Punctuation::Star,
        '~' => Punctuation::Tilde,
        '@' => Punctuation::At,
        '^' => Punctuation::Caret,
        '+' => Punctuation::Plus,
        '|' => Punctuation::Pipe,
        '_' => Punctuation::Underscore,
        '$' => Punctuation::Currency(Currency::Dollar),
        '¢' => Punctuation::Currency(Currency::Cent),
        '€' => Punctuation::Currency(Currency::Euro),
        '₽' => Punctuation::Currency(Currency::Ruble),
        '₺' => Punctuation::Currency(Currency::Lira),
        '£' => Punctuation::Currency(Currency::Pound),
        '¥' => Punctuation::Currency(Currency::Yen),
        '฿' => Punctuation::Currency(Currency::Baht),
        '₩' => Punctuation::Currency(Currency::Won),
        '₭' => Punctuation::Currency(Currency::Kip),
        _ => return None,
    })
}
// HV: {"name":"c02_punctuation_shape","prop":"C02","kernel":"lex_punctuation / Punctuation::from_char","bound":"every first character (any Unicode scalar) followed by 1 arbitrary char","fns":["harper_core::lexing::lex_punctuation","harper_core::lexing::lex_quote","harper_core::punctuation::Punctuation::from_char","harper_core::currency::Currency::from_char"]}
#[kani::proof]
#[kani::unwind(4)]
fn c02_punctuation_shape() {
    let src: [char; 2] = any_chars::<2>();
    let got = hk::lex_punctuation(&src);
    match spec_punct(src[0]) {
        None => assert!(got.is_none(), "non-punctuation characters are not lexed as punctuation"),
        Some(p) => {
            let ft = got.expect("every punctuation mark is lexed");
            assert!(ft.next_index == 1, "a punctuation token covers exactly one character");
            match ft.token {
                TokenKind::Punctuation(q) => assert!(q == p, "the token is that punctuation mark; quotes start unpaired"),
                _ => panic!("lex_punctuation must yield a punctuation token"),
            }
            core::mem::forget(ft);
        }
    }
    kani::cover!(src[0] == '₭', "non-ASCII currency sign reachable");
}

// ------------------------------------------------------------------ numbers: hex value and decade shape
fn hex_val(c: char) -> u64 {
    match c {
        '0'..='9' => c as u64 - '0' as u64,
        'a'..='f' => c as u64 - 'a' as u64 + 10,
        'A'..='F' => c as u64 - 'A' as u64 + 10,
        _ => 99,
    }
}
fn hex_shape<const L: usize>() {
    let src: [char; L] = any_chars::<L>();
    if let Some(ft) = hk::lex_hex_number(&src) {
        let n = ft.next_index;
        assert!(n >= 3 && n <= L);
        assert!(src[0] == '0' && src[1] == 'x', "a hex number starts with 0x");
        let mut v: u64 = 0;
        let mut i = 2;
        while i < n {
            let d = hex_val(src[i]);
            assert!(d < 16, "every consumed character is a hex digit");
            v = v * 16 + d;
            i += 1;
        }
        match ft.token {
            TokenKind::Number(Number { value, suffix, radix, precision }) => {
                assert!(radix == 16 && suffix.is_none() && precision == 0);
                assert!(value.0 == v as f64, "the token's value is the number its text denotes");
            }
            _ => panic!("lex_hex_number must yield a Number"),
        }
        kani::cover!(n == L, "hex number covering the whole text");
    }
}
// HV: {"name": "c02_hex_shape_l3", "prop": "C02", "kernel": "lex_hex_number", "bound": "every text of 3 chars (any Unicode scalar)", "fns": ["harper_core::lexing::lex_hex_number"], "stubbing": true, "stubs": ["core::unicode::unicode_data::{alphabetic,n}::lookup -> arbitrary bool", "unicode_script::get_script -> arbitrary of {Latin, non-Latin, unknown}"]}
inst1!(c02_hex_shape_l3, hex_shape, 3, 8, stubbed);
// HV: {"name": "c02_hex_shape_l4", "prop": "C02", "kernel": "lex_hex_number", "bound": "every text of 4 chars (any Unicode scalar)", "fns": ["harper_core::lexing::lex_hex_number"], "cost": 4, "stubbing": true, "stubs": ["core::unicode::unicode_data::{alphabetic,n}::lookup -> arbitrary bool", "unicode_script::get_script -> arbitrary of {Latin, non-Latin, unknown}"]}
inst1!(c02_hex_shape_l4, hex_shape, 4, 9, stubbed);
// (not admitted: c02_hex_shape_l5 - out of memory under the 14 GB cap; 5-character hex texts are covered by mirsym_hex_mixed_3)
// HV: {"name": "c02_hex_shape_l6", "prop": "C02", "tier": "thorough", "kernel": "lex_hex_number", "bound": "every text of 6 chars (any Unicode scalar)", "fns": ["harper_core::lexing::lex_hex_number"], "cost": 8, "stubbing": true, "stubs": ["core::unicode::unicode_data::{alphabetic,n}::lookup -> arbitrary bool", "unicode_script::get_script -> arbitrary of {Latin, non-Latin, unknown}"]}
inst1!(c02_hex_shape_l6, hex_shape, 6, 11, stubbed);

// HV: {"name":"c02_decade_shape","prop":"C02","kernel":"lex_long_decade","bound":"every text of 6 chars (any Unicode scalar)","fns":["harper_core::lexing::lex_long_decade"]}
#[kani::proof]
#[kani::unwind(8)]
fn c02_decade_shape() {
    let src: [char; 6] = any_chars::<6>();
    // exactly [12]dd0s, and the 's' is not the start of a longer word ("1980st" is number + suffix)
    let want = (src[0] == '1' || src[0] == '2')
        && src[1].is_ascii_digit()
        && src[2].is_ascii_digit()
        && src[3] == '0'
        && src[4] == 's'
        && !src[5].is_ascii_alphanumeric();
    match hk::lex_long_decade(&src) {
        Some(ft) => {
            assert!(want && ft.next_index == 5 && matches!(ft.token, TokenKind::Decade));
            core::mem::forget(ft);
        }
        None => assert!(!want),
    }
}

// ------------------------------------------------------------------ URL / hostname tokens contain no whitespace
fn url_no_ws<const L: usize>() {
    let src: [char; L] = any_chars::<L>();
    if let Some(ft) = hk::lex_url(&src) {
        assert!(matches!(ft.token, TokenKind::Url));
        let mut i = 0;
        while i < ft.next_index {
            assert!(src[i] != ' ' && src[i] != '\n' && src[i] != '\t', "a URL token contains no blank");
            i += 1;
        }
        core::mem::forget(ft);
    }
}
fn host_no_ws<const L: usize>() {
    let src: [char; L] = any_chars::<L>();
    if let Some(ft) = hk::lex_hostname_token(&src) {
        assert!(matches!(ft.token, TokenKind::Hostname));
        let mut i = 0;
        while i < ft.next_index {
            assert!(src[i].is_ascii_alphanumeric() || src[i] == '-' || src[i] == '.', "a hostname token is letters, digits, '-' and '.'");
            i += 1;
        }
        core::mem::forget(ft);
    }
}
// HV: {"name":"c02_url_no_ws_l4","prop":"C02","kernel":"lex_url","bound":"every text of 4 chars (any Unicode scalar)","fns":["harper_core::lexing::url::lex_url"],"cost":4}
inst1!(c02_url_no_ws_l4, url_no_ws, 4, 7);
// HV: {"name":"c02_url_no_ws_l6","prop":"C02","tier":"thorough","kernel":"lex_url","bound":"every text of 6 chars (any Unicode scalar)","fns":["harper_core::lexing::url::lex_url"],"cost":9}
inst1!(c02_url_no_ws_l6, url_no_ws, 6, 9);
// HV: {"name":"c02_host_shape_l4","prop":"C02","kernel":"lex_hostname_token","bound":"every text of 4 chars (any Unicode scalar)","fns":["harper_core::lexing::hostname::lex_hostname_token"],"cost":4}
inst1!(c02_host_shape_l4, host_no_ws, 4, 8);

// ------------------------------------------------------------------ quote pairing
fn quotes<const N: usize>() {
    let toks: [Token; N] = core::array::from_fn(|i| Token {
        span: Span { start: i, end: i + 1 },
        kind: if kani::any() {
            TokenKind::Punctuation(Punctuation::Quote(Quote { twin_loc: None }))
        } else {
            TokenKind::Word(None)
        },
    });
    let is_q: [bool; N] = core::array::from_fn(|i| toks[i].kind.is_quote());
    let mut v = Vec::with_capacity(N);
    for t in toks.iter() {
        v.push(t.clone());
    }
    let mut doc = Document::verif_from_parts(Lrc::new(vec!['"'; N]), v);
    doc.verif_match_quotes();
    let out = doc.get_tokens();
    assert!(out.len() == N);
    let mut nq = 0;
    let mut i = 0;
    while i < N {
        assert!(out[i].kind.is_quote() == is_q[i] && out[i].span.start == i, "pairing changes no kind and no span");
        if let TokenKind::Punctuation(Punctuation::Quote(Quote { twin_loc })) = out[i].kind {
            nq += 1;
            match twin_loc {
                Some(t) => {
                    assert!(t < N && t != i, "a twin is another existing token");
                    match out[t].kind {
                        TokenKind::Punctuation(Punctuation::Quote(Quote { twin_loc: Some(b) })) => {
                            assert!(b == i, "twins point at each other")
                        }
                        _ => panic!("a twin must be a paired quote"),
                    }
                    // odd-numbered quotes open, even-numbered close: opener before closer
                    if nq % 2 == 1 {
                        assert!(t > i);
                    } else {
                        assert!(t < i);
                    }
                }
                None => {
                    // only the last quote of an odd number of quotes stays unpaired
                    let mut later = false;
                    let mut j = i + 1;
                    while j < N {
                        later |= is_q[j];
                        j += 1;
                    }
                    assert!(!later && nq % 2 == 1, "only a final odd quote is unpaired");
                }
            }
        }
        i += 1;
    }
    kani::cover!(N < 3 || nq == 3, "three quotes reachable (N >= 3)");
    core::mem::forget(doc);
    core::mem::forget(toks);
}
// HV: {"name":"c02_match_quotes_n0","prop":"C02","kernel":"Document::match_quotes","bound":"0 tokens","fns":["harper_core::document::Document::match_quotes"]}
inst1!(c02_match_quotes_n0, quotes, 0, 3);
// HV: {"name":"c02_match_quotes_n2","prop":"C02","kernel":"Document::match_quotes","bound":"2 tokens, each quote or word","fns":["harper_core::document::Document::match_quotes"],"cost":2}
inst1!(c02_match_quotes_n2, quotes, 2, 5);
// HV: {"name":"c02_match_quotes_n3","prop":"C02","kernel":"Document::match_quotes","bound":"3 tokens, each quote or word","fns":["harper_core::document::Document::match_quotes"],"cost":4}
inst1!(c02_match_quotes_n3, quotes, 3, 6);
// HV: {"name":"c02_match_quotes_n4","prop":"C02","kernel":"Document::match_quotes","bound":"4 tokens, each quote or word","fns":["harper_core::document::Document::match_quotes"],"cost":6}
inst1!(c02_match_quotes_n4, quotes, 4, 7);
// HV: {"name":"c02_match_quotes_n5","prop":"C02","tier":"thorough","kernel":"Document::match_quotes","bound":"5 tokens, each quote or word","fns":["harper_core::document::Document::match_quotes"],"cost":8}
inst1!(c02_match_quotes_n5, quotes, 5, 8);

// ------------------------------------------------------------------ plain-English tiling
fn tiling<const L: usize>() {
    let src: [char; L] = any_chars_ascii::<L>();
    let toks = PlainEnglish.parse(&src);
    let mut cursor = 0;
    let mut i = 0;
    while i < toks.len() {
        assert!(toks[i].span.start == cursor, "tokens tile the text without gap or overlap");
        assert!(toks[i].span.end > toks[i].span.start && toks[i].span.end <= L, "tokens are non-empty and in bounds");
        cursor = toks[i].span.end;
        i += 1;
    }
    assert!(cursor == L, "tokens cover the text to its end");
    core::mem::forget(toks);
}
// HV: {"name":"c02_plain_tiling_l1","prop":"C02","tier":"thorough","kernel":"PlainEnglish::parse + lex_token","bound":"every ASCII text of 1 char","fns":["harper_core::parsers::plain_english::PlainEnglish::parse","harper_core::lexing::lex_token"],"cost":8,"mem_gb":30,"mem_expect_gb":12,"timeout_s":3000}
inst1!(c02_plain_tiling_l1, tiling, 1, 15);
// HV: {"name":"c02_plain_tiling_l2","prop":"C02","tier":"thorough","kernel":"PlainEnglish::parse + lex_token","bound":"every ASCII text of 2 chars","fns":["harper_core::parsers::plain_english::PlainEnglish::parse","harper_core::lexing::lex_token"],"cost":10,"mem_gb":30,"mem_expect_gb":14,"timeout_s":3000}
inst1!(c02_plain_tiling_l2, tiling, 2, 15);

//! C01 — checking any text never crashes or hangs: the kernels the property's anchors name.
use crate::util::*;
use harper_core::patterns::{
    All, AnyCapitalization, AnyPattern, ConsumesRemainingPattern, EitherPattern, ImpliesQuantity,
    IndefiniteArticle, Invert, NaivePatternGroup, NominalPhrase, Pattern, PatternExt, PatternMap,
    RepeatingPattern, SequencePattern, WhitespacePattern, WordSet,
};
use harper_core::linting::{Lint, PatternLinter};
use harper_core::verif_hooks as hk;
use harper_core::verif_hooks::FoundToken;
use harper_core::{Span, Token, TokenKind};

// ------------------------------------------------------------------ lexers: total, and 1 <= next_index <= len
/// The premise of `PlainEnglish::parse`'s loop (`Span::new(cursor, cursor + next_index)`,
/// `cursor += next_index`): a lexer that answers `Some` consumes at least one and at most
/// all of the remaining characters.
fn lexer_progress(found: Option<FoundToken>, len: usize) {
    if let Some(f) = found {
        assert!(f.next_index >= 1, "a lexer that matches consumes at least one character");
        assert!(f.next_index <= len, "a lexer never consumes past the end of the text");
        core::mem::forget(f);
    }
}

macro_rules! lexer {
    ($name:ident, $f:path, $gen:ident, $l:expr, $u:expr) => {
        #[kani::proof]
        #[kani::unwind($u)]
        fn $name() {
            let src: [char; $l] = $gen::<$l>();
            let found = $f(&src);
            kani::cover!(found.is_some(), "lexer can match");
            kani::cover!(found.is_none(), "lexer can decline");
            lexer_progress(found, $l);
        }
    };
    // lexers that can never decline / never match at this length
    ($name:ident, $f:path, $gen:ident, $l:expr, $u:expr, nocover) => {
        #[kani::proof]
        #[kani::unwind($u)]
        fn $name() {
            let src: [char; $l] = $gen::<$l>();
            let found = $f(&src);
            lexer_progress(found, $l);
        }
    };
}

/// Same, with the Unicode table look-ups replaced by nondeterministic stubs (util::stubs).
macro_rules! lexer_stubbed {
    ($name:ident, $f:path, $gen:ident, $l:expr, $u:expr) => {
        #[kani::proof]
        #[kani::unwind($u)]
        #[kani::stub(core::unicode::unicode_data::alphabetic::lookup, crate::util::stubs::any_bool_for_char)]
        #[kani::stub(core::unicode::unicode_data::n::lookup, crate::util::stubs::any_bool_for_char)]
        #[kani::stub(unicode_script::tables::tables_impl::get_script, crate::util::stubs::any_script)]
        fn $name() {
            let src: [char; $l] = $gen::<$l>();
            let found = $f(&src);
            kani::cover!(found.is_some(), "lexer can match");
            kani::cover!(found.is_none(), "lexer can decline");
            lexer_progress(found, $l);
        }
    };
}

// lex_url — any char
// HV: {"name":"c01_lex_url_l1","prop":"C01","kernel":"lex_url","bound":"every text of 1 char (any Unicode scalar)","fns":["harper_core::lexing::url::lex_url"]}
lexer!(c01_lex_url_l1, hk::lex_url, any_chars, 1, 4, nocover);
// HV: {"name":"c01_lex_url_l3","prop":"C01","kernel":"lex_url","bound":"every text of 3 chars (any Unicode scalar)","fns":["harper_core::lexing::url::lex_url"],"cost":3}
lexer!(c01_lex_url_l3, hk::lex_url, any_chars, 3, 6, nocover);
// HV: {"name":"c01_lex_url_l4","prop":"C01","kernel":"lex_url","bound":"every text of 4 chars (any Unicode scalar)","fns":["harper_core::lexing::url::lex_url"],"cost":5}
lexer!(c01_lex_url_l4, hk::lex_url, any_chars, 4, 7);
// HV: {"name":"c01_lex_url_l5","prop":"C01","tier":"thorough","kernel":"lex_url","bound":"every text of 5 chars (any Unicode scalar)","fns":["harper_core::lexing::url::lex_url"],"cost":8}
lexer!(c01_lex_url_l5, hk::lex_url, any_chars, 5, 8);
// HV: {"name":"c01_lex_url_l6","prop":"C01","tier":"thorough","kernel":"lex_url","bound":"every text of 6 chars (any Unicode scalar)","fns":["harper_core::lexing::url::lex_url"],"cost":10}
lexer!(c01_lex_url_l6, hk::lex_url, any_chars, 6, 9);

/// Structured URL inputs: a concrete well-formed prefix followed by a few arbitrary characters, so that the
/// escape / credential sub-lexers (`lex_escaped`, `lex_login`, `is_uchar_plus_string`) are reached at the very end
/// of the slice they are handed - deeper than the fully symbolic texts above can go.
fn url_with_tail<const P: usize, const T: usize, const S: usize, const L: usize>(prefix: [char; P], suffix: [char; S]) {
    let tail: [char; T] = any_chars::<T>();
    let mut src = ['a'; L];
    let mut i = 0;
    while i < P {
        src[i] = prefix[i];
        i += 1;
    }
    let mut j = 0;
    while j < T {
        src[P + j] = tail[j];
        j += 1;
    }
    let mut k = 0;
    while k < S {
        src[P + T + k] = suffix[k];
        k += 1;
    }
    let found = hk::lex_url(&src);
    kani::cover!(matches!(&found, Some(f) if f.next_index == L), "the whole text is one URL");
    lexer_progress(found, L);
}
// HV: {"name": "c01_lex_url_path_tail2", "prop": "C01", "kernel": "lex_url (path escapes at the end of the text)", "bound": "'a://b/' + 2 arbitrary chars (any Unicode scalar)", "fns": ["harper_core::lexing::url::lex_url", "harper_core::lexing::url::lex_escaped", "harper_core::lexing::url::lex_xchar_string"], "cost": 9, "tier": "thorough", "timeout_s": 3000}
#[kani::proof]
#[kani::unwind(11)]
fn c01_lex_url_path_tail2() {
    url_with_tail::<6, 2, 0, 8>(['a', ':', '/', '/', 'b', '/'], []);
}
// (not admitted: no verdict in 900 s) {"name": "c01_lex_url_path_tail3", "prop": "C01", "kernel": "lex_url (path escapes at the end of the text)", "bound": "'a://b/' + 3 arbitrary chars (any Unicode scalar)", "fns": ["harper_core::lexing::url::lex_url", "harper_core::lexing::url::lex_escaped", "harper_core::lexing::url::lex_xchar_string"], "cost": 5}
#[kani::proof]
#[kani::unwind(12)]
fn c01_lex_url_path_tail3() {
    url_with_tail::<6, 3, 0, 9>(['a', ':', '/', '/', 'b', '/'], []);
}
// HV: {"name": "c01_lex_url_login_tail2", "prop": "C01", "kernel": "lex_url (credentials before '@')", "bound": "'a://' + 2 arbitrary chars + '@b' (any Unicode scalar)", "fns": ["harper_core::lexing::url::lex_url", "harper_core::lexing::url::lex_login", "harper_core::lexing::url::is_uchar_plus_string", "harper_core::lexing::url::lex_escaped"], "cost": 9, "tier": "thorough", "timeout_s": 3000}
#[kani::proof]
#[kani::unwind(11)]
fn c01_lex_url_login_tail2() {
    url_with_tail::<4, 2, 2, 8>(['a', ':', '/', '/'], ['@', 'b']);
}
// (not admitted: no verdict in 900 s) {"name": "c01_lex_url_login_tail3", "prop": "C01", "kernel": "lex_url (credentials before '@')", "bound": "'a://' + 3 arbitrary chars + '@b' (any Unicode scalar)", "fns": ["harper_core::lexing::url::lex_url", "harper_core::lexing::url::lex_login", "harper_core::lexing::url::is_uchar_plus_string", "harper_core::lexing::url::lex_escaped"], "cost": 5}
#[kani::proof]
#[kani::unwind(12)]
fn c01_lex_url_login_tail3() {
    url_with_tail::<4, 3, 2, 9>(['a', ':', '/', '/'], ['@', 'b']);
}

// lex_hostname_token — any char
// HV: {"name":"c01_lex_hostname_l2","prop":"C01","kernel":"lex_hostname_token","bound":"every text of 2 chars (any Unicode scalar)","fns":["harper_core::lexing::hostname::lex_hostname_token","harper_core::lexing::hostname::lex_hostname"]}
lexer!(c01_lex_hostname_l2, hk::lex_hostname_token, any_chars, 2, 6, nocover);
// HV: {"name":"c01_lex_hostname_l3","prop":"C01","kernel":"lex_hostname_token","bound":"every text of 3 chars (any Unicode scalar)","fns":["harper_core::lexing::hostname::lex_hostname_token","harper_core::lexing::hostname::lex_hostname"],"cost":2}
lexer!(c01_lex_hostname_l3, hk::lex_hostname_token, any_chars, 3, 7);
// HV: {"name":"c01_lex_hostname_l4","prop":"C01","kernel":"lex_hostname_token","bound":"every text of 4 chars (any Unicode scalar)","fns":["harper_core::lexing::hostname::lex_hostname_token","harper_core::lexing::hostname::lex_hostname"],"cost":4}
lexer!(c01_lex_hostname_l4, hk::lex_hostname_token, any_chars, 4, 8);
// HV: {"name":"c01_lex_hostname_l5","prop":"C01","tier":"thorough","kernel":"lex_hostname_token","bound":"every text of 5 chars (any Unicode scalar)","fns":["harper_core::lexing::hostname::lex_hostname_token","harper_core::lexing::hostname::lex_hostname"],"cost":7}
lexer!(c01_lex_hostname_l5, hk::lex_hostname_token, any_chars, 5, 9);

// lex_email_address — domain D (valid_unquoted_character only compares code points, but keep D for tuple_windows cost)
// (not admitted: subsumed by l3) {"name": "c01_lex_email_l2", "prop": "C01", "kernel": "lex_email_address", "bound": "every text of 2 chars (any Unicode scalar)", "fns": ["harper_core::lexing::email_address::lex_email_address"]}
lexer!(c01_lex_email_l2, hk::lex_email_address, any_chars, 2, 23, nocover);
// HV: {"name": "c01_lex_email_l3", "prop": "C01", "kernel": "lex_email_address", "bound": "every text of 3 chars (any Unicode scalar)", "fns": ["harper_core::lexing::email_address::lex_email_address"], "cost": 6, "kani_args": ["-Z", "unstable-options", "--cbmc-args", "--unwindset", "_RINvXs2J_NtNtCs8xvirJzNMvV_4core5slice4iterINtB7_4ItercENtNtNtNtBb_4iter6traits8iterator8Iterator4foldbNCNvXsK_NtB9_3cmpcNtB1L_13SliceContains14slice_contains0ECs5wRYYVRclu5_14pulldown_cmark.0:22"], "assume": ["per-loop bound: the 20-entry `others.contains(c)` scan in valid_unquoted_character gets --unwindset 22, every other loop the harness bound (unwinding assertions stay on)"]}
lexer!(c01_lex_email_l3, hk::lex_email_address, any_chars, 3, 7);
// HV: {"name": "c01_lex_email_l4", "prop": "C01", "kernel": "lex_email_address", "bound": "every text of 4 chars (any Unicode scalar)", "fns": ["harper_core::lexing::email_address::lex_email_address"], "cost": 9, "kani_args": ["-Z", "unstable-options", "--cbmc-args", "--unwindset", "_RINvXs2J_NtNtCs8xvirJzNMvV_4core5slice4iterINtB7_4ItercENtNtNtNtBb_4iter6traits8iterator8Iterator4foldbNCNvXsK_NtB9_3cmpcNtB1L_13SliceContains14slice_contains0ECs5wRYYVRclu5_14pulldown_cmark.0:22"], "tier": "thorough"}
lexer!(c01_lex_email_l4, hk::lex_email_address, any_chars, 4, 8);
// (not admitted: too slow) {"name": "c01_lex_email_l5", "prop": "C01", "tier": "thorough", "kernel": "lex_email_address", "bound": "every text of 5 chars (any Unicode scalar)", "fns": ["harper_core::lexing::email_address::lex_email_address"], "cost": 8}
lexer!(c01_lex_email_l5, hk::lex_email_address, any_chars, 5, 25);

// lex_hex_number, lex_long_decade — ASCII-only predicates, any char
// HV: {"name": "c01_lex_hex_l3", "prop": "C01", "kernel": "lex_hex_number", "bound": "every text of 3 chars (any Unicode scalar)", "fns": ["harper_core::lexing::lex_hex_number"], "stubbing": true, "stubs": ["core::unicode::unicode_data::{alphabetic,n}::lookup -> arbitrary bool", "unicode_script::get_script -> arbitrary of {Latin, non-Latin, unknown}"]}
lexer_stubbed!(c01_lex_hex_l3, hk::lex_hex_number, any_chars, 3, 8);
// HV: {"name": "c01_lex_hex_l4", "prop": "C01", "kernel": "lex_hex_number", "bound": "every text of 4 chars (any Unicode scalar)", "fns": ["harper_core::lexing::lex_hex_number"], "cost": 3, "stubbing": true, "stubs": ["core::unicode::unicode_data::{alphabetic,n}::lookup -> arbitrary bool", "unicode_script::get_script -> arbitrary of {Latin, non-Latin, unknown}"]}
lexer_stubbed!(c01_lex_hex_l4, hk::lex_hex_number, any_chars, 4, 9);
// HV: {"name": "c01_lex_hex_l5", "prop": "C01", "tier": "thorough", "kernel": "lex_hex_number", "bound": "every text of 5 chars (any Unicode scalar)", "fns": ["harper_core::lexing::lex_hex_number"], "cost": 6, "stubbing": true, "stubs": ["core::unicode::unicode_data::{alphabetic,n}::lookup -> arbitrary bool", "unicode_script::get_script -> arbitrary of {Latin, non-Latin, unknown}"]}
lexer_stubbed!(c01_lex_hex_l5, hk::lex_hex_number, any_chars, 5, 10);
/// The u64 overflow boundary of `u64::from_str_radix(.., 16)`: 16 hex digits fit, 17 do not.
fn hex_digits<const D: usize, const L: usize>() {
    let mut src: [char; L] = any_chars::<L>();
    src[0] = '0';
    src[1] = 'x';
    let mut i = 2;
    while i < L {
        kani::assume(src[i].is_ascii_hexdigit());
        i += 1;
    }
    let found = hk::lex_hex_number(&src);
    if D <= 16 {
        kani::cover!(found.is_some(), "a literal of up to 16 hex digits is a number");
    } else {
        kani::cover!(found.is_none(), "a 17-digit literal exceeds u64 and is declined");
    }
    lexer_progress(found, L);
}
// (not admitted: out of memory at 14 GB (String building + from_str_radix over 16 symbolic digits)) {"name": "c01_lex_hex_16digits", "prop": "C01", "kernel": "lex_hex_number", "bound": "'0x' + exactly 16 arbitrary hex digits (largest literal that fits u64)", "fns": ["harper_core::lexing::lex_hex_number"], "cost": 4}
#[kani::proof]
#[kani::unwind(20)]
fn c01_lex_hex_16digits() {
    hex_digits::<16, 18>();
}
// (not admitted: out of memory at 14 GB) {"name": "c01_lex_hex_17digits", "prop": "C01", "kernel": "lex_hex_number", "bound": "'0x' + exactly 17 arbitrary hex digits (value exceeds u64: from_str_radix fails)", "fns": ["harper_core::lexing::lex_hex_number"], "cost": 4}
#[kani::proof]
#[kani::unwind(21)]
fn c01_lex_hex_17digits() {
    hex_digits::<17, 19>();
}
// HV: {"name": "c01_lex_decade_l5", "prop": "C01", "kernel": "lex_long_decade", "bound": "every text of 5 chars (any Unicode scalar)", "fns": ["harper_core::lexing::lex_long_decade"]}
lexer!(c01_lex_decade_l5, hk::lex_long_decade, any_chars, 5, 7);
// HV: {"name": "c01_lex_decade_l4", "prop": "C01", "kernel": "lex_long_decade", "bound": "every text of 4 chars (any Unicode scalar)", "fns": ["harper_core::lexing::lex_long_decade"]}
lexer!(c01_lex_decade_l4, hk::lex_long_decade, any_chars, 4, 6, nocover);

// lexers that consult Unicode tables — domain D
// HV: {"name": "c01_lex_regexish_l3", "prop": "C01", "kernel": "lex_regexish", "bound": "every text of 3 chars (any Unicode scalar)", "fns": ["harper_core::lexing::lex_regexish"], "stubbing": true, "stubs": ["core::unicode::unicode_data::{alphabetic,n}::lookup -> arbitrary bool", "unicode_script::get_script -> arbitrary of {Latin, non-Latin, unknown}"]}
lexer_stubbed!(c01_lex_regexish_l3, hk::lex_regexish, any_chars, 3, 6);
// HV: {"name": "c01_lex_regexish_l4", "prop": "C01", "kernel": "lex_regexish", "bound": "every text of 4 chars (any Unicode scalar)", "fns": ["harper_core::lexing::lex_regexish"], "cost": 3, "stubbing": true, "stubs": ["core::unicode::unicode_data::{alphabetic,n}::lookup -> arbitrary bool", "unicode_script::get_script -> arbitrary of {Latin, non-Latin, unknown}"]}
lexer_stubbed!(c01_lex_regexish_l4, hk::lex_regexish, any_chars, 4, 7);
// HV: {"name": "c01_lex_regexish_l6", "prop": "C01", "tier": "thorough", "kernel": "lex_regexish", "bound": "every text of 6 chars (any Unicode scalar)", "fns": ["harper_core::lexing::lex_regexish"], "cost": 7, "stubbing": true, "stubs": ["core::unicode::unicode_data::{alphabetic,n}::lookup -> arbitrary bool", "unicode_script::get_script -> arbitrary of {Latin, non-Latin, unknown}"]}
lexer_stubbed!(c01_lex_regexish_l6, hk::lex_regexish, any_chars, 6, 9);
// HV: {"name":"c01_lex_plural_digit_l3","prop":"C01","kernel":"lex_plural_digit","bound":"every text of 3 chars (any Unicode scalar)","fns":["harper_core::lexing::lex_plural_digit"]}
lexer!(c01_lex_plural_digit_l3, hk::lex_plural_digit, any_chars, 3, 5);
// HV: {"name":"c01_lex_plural_digit_l4","prop":"C01","kernel":"lex_plural_digit","bound":"every text of 4 chars (any Unicode scalar)","fns":["harper_core::lexing::lex_plural_digit"]}
lexer!(c01_lex_plural_digit_l4, hk::lex_plural_digit, any_chars, 4, 5);
// HV: {"name":"c01_lex_punctuation_l1","prop":"C01","kernel":"lex_punctuation","bound":"every text of 1 char (any Unicode scalar)","fns":["harper_core::lexing::lex_punctuation","harper_core::punctuation::Punctuation::from_char","harper_core::currency::Currency::from_char"]}
lexer!(c01_lex_punctuation_l1, hk::lex_punctuation, any_chars, 1, 4);
// HV: {"name":"c01_lex_spaces_l3","prop":"C01","kernel":"lex_spaces","bound":"every text of 3 chars (any Unicode scalar)","fns":["harper_core::lexing::lex_spaces"]}
lexer!(c01_lex_spaces_l3, hk::lex_spaces, any_chars, 3, 6);
// HV: {"name":"c01_lex_tabs_l3","prop":"C01","kernel":"lex_tabs","bound":"every text of 3 chars (any Unicode scalar)","fns":["harper_core::lexing::lex_tabs"]}
lexer!(c01_lex_tabs_l3, hk::lex_tabs, any_chars, 3, 6);
// HV: {"name":"c01_lex_newlines_l3","prop":"C01","kernel":"lex_newlines","bound":"every text of 3 chars (any Unicode scalar)","fns":["harper_core::lexing::lex_newlines"]}
lexer!(c01_lex_newlines_l3, hk::lex_newlines, any_chars, 3, 6);
// HV: {"name": "c01_lex_word_l2", "prop": "C01", "kernel": "lex_word", "bound": "every text of 2 chars (any Unicode scalar)", "fns": ["harper_core::lexing::lex_word", "harper_core::char_ext::CharExt::is_english_lingual"], "cost": 3, "stubbing": true, "stubs": ["core::unicode::unicode_data::{alphabetic,n}::lookup -> arbitrary bool", "unicode_script::get_script -> arbitrary of {Latin, non-Latin, unknown}"]}
lexer_stubbed!(c01_lex_word_l2, hk::lex_word, any_chars, 2, 26);
// HV: {"name": "c01_lex_word_l3", "prop": "C01", "tier": "thorough", "kernel": "lex_word", "bound": "every text of 3 chars (any Unicode scalar)", "fns": ["harper_core::lexing::lex_word", "harper_core::char_ext::CharExt::is_english_lingual"], "cost": 6, "stubbing": true, "stubs": ["core::unicode::unicode_data::{alphabetic,n}::lookup -> arbitrary bool", "unicode_script::get_script -> arbitrary of {Latin, non-Latin, unknown}"]}
lexer_stubbed!(c01_lex_word_l3, hk::lex_word, any_chars, 3, 26);
// HV: {"name":"c01_lex_catch_l1","prop":"C01","kernel":"lex_catch","bound":"every text of 1 char: always matches exactly one char (the progress guarantee of lex_token)","fns":["harper_core::lexing::lex_catch"]}
#[kani::proof]
fn c01_lex_catch_l1() {
    let src: [char; 1] = any_chars::<1>();
    let f = hk::lex_catch(&src).expect("lex_catch always matches");
    assert!(f.next_index == 1);
    core::mem::forget(f);
}

// ------------------------------------------------------------------ Pattern contract: matches(tokens) <= tokens.len()
/// Over-approximates every contract-obeying pattern: fresh nondeterministic length per call.
struct AnyLen;
impl Pattern for AnyLen {
    fn matches(&self, tokens: &[Token], _source: &[char]) -> usize {
        let k: usize = kani::any();
        kani::assume(k <= tokens.len());
        k
    }
}

const SRC: usize = 4;

/// Combinators never look at the tokens themselves (only their children do), so the token
/// kinds come from the light menu; spans are ordered and inside a 4-char text.
fn contract<const N: usize>(p: &dyn Pattern) {
    let src: [char; SRC] = any_chars_ascii::<SRC>();
    let toks: [Token; N] = any_tokens_ordered_light::<N>(SRC);
    let m = p.matches(&toks, &src);
    assert!(m <= N, "Pattern::matches returns at most tokens.len()");
    core::mem::forget(toks);
}

macro_rules! pat {
    ($name:ident, $n:expr, $u:expr, $build:expr) => {
        #[kani::proof]
        #[kani::unwind($u)]
        fn $name() {
            let p = $build;
            contract::<$n>(&p);
            core::mem::forget(p);
        }
    };
}

// Each combinator over AnyLen children, one harness per token count (0 is the end-of-clause case).
// HV: {"name":"c01_pat_sequence_n0","prop":"C01","kernel":"SequencePattern::matches","bound":"0 tokens; 2 arbitrary contract-obeying children","fns":["harper_core::patterns::sequence_pattern::SequencePattern::matches"],"stubs":["AnyLen child pattern: arbitrary k <= tokens.len() per call"]}
pat!(c01_pat_sequence_n0, 0, 6, SequencePattern::default().then(AnyLen).then(AnyLen));
// HV: {"name":"c01_pat_sequence_n1","prop":"C01","kernel":"SequencePattern::matches","bound":"1 token; 2 arbitrary contract-obeying children","fns":["harper_core::patterns::sequence_pattern::SequencePattern::matches"],"stubs":["AnyLen child pattern"]}
pat!(c01_pat_sequence_n1, 1, 6, SequencePattern::default().then(AnyLen).then(AnyLen));
// HV: {"name":"c01_pat_sequence_n2","prop":"C01","kernel":"SequencePattern::matches","bound":"2 tokens; 3 arbitrary contract-obeying children","fns":["harper_core::patterns::sequence_pattern::SequencePattern::matches"],"stubs":["AnyLen child pattern"]}
pat!(c01_pat_sequence_n2, 2, 6, SequencePattern::default().then(AnyLen).then(AnyLen).then(AnyLen));
// HV: {"name":"c01_pat_sequence_n3","prop":"C01","kernel":"SequencePattern::matches","bound":"3 tokens; 3 arbitrary contract-obeying children","fns":["harper_core::patterns::sequence_pattern::SequencePattern::matches"],"stubs":["AnyLen child pattern"],"cost":2}
pat!(c01_pat_sequence_n3, 3, 6, SequencePattern::default().then(AnyLen).then(AnyLen).then(AnyLen));
// HV: {"name":"c01_pat_sequence_n4","prop":"C01","tier":"thorough","kernel":"SequencePattern::matches","bound":"4 tokens; 4 arbitrary contract-obeying children","fns":["harper_core::patterns::sequence_pattern::SequencePattern::matches"],"stubs":["AnyLen child pattern"],"cost":3}
pat!(c01_pat_sequence_n4, 4, 7, SequencePattern::default().then(AnyLen).then(AnyLen).then(AnyLen).then(AnyLen));

// HV: {"name":"c01_pat_invert_n0","prop":"C01","kernel":"Invert::matches","bound":"0 tokens (end of clause); arbitrary contract-obeying child","fns":["harper_core::patterns::invert::Invert::matches"],"stubs":["AnyLen child pattern"]}
pat!(c01_pat_invert_n0, 0, 6, Invert::new(AnyLen));
// HV: {"name":"c01_pat_invert_n1","prop":"C01","kernel":"Invert::matches","bound":"1 token; arbitrary contract-obeying child","fns":["harper_core::patterns::invert::Invert::matches"],"stubs":["AnyLen child pattern"]}
pat!(c01_pat_invert_n1, 1, 6, Invert::new(AnyLen));
// HV: {"name":"c01_pat_invert_n2","prop":"C01","kernel":"Invert::matches","bound":"2 tokens; arbitrary contract-obeying child","fns":["harper_core::patterns::invert::Invert::matches"],"stubs":["AnyLen child pattern"]}
pat!(c01_pat_invert_n2, 2, 6, Invert::new(AnyLen));
// HV: {"name":"c01_pat_seq_invert_n1","prop":"C01","kernel":"SequencePattern + Invert (the 'the how' shape)","bound":"1 token; Sequence(child, Invert(child)) with arbitrary contract-obeying children","fns":["harper_core::patterns::sequence_pattern::SequencePattern::matches","harper_core::patterns::invert::Invert::matches"],"stubs":["AnyLen child pattern"]}
pat!(c01_pat_seq_invert_n1, 1, 6, SequencePattern::default().then(AnyLen).then(Invert::new(AnyLen)));
// HV: {"name":"c01_pat_seq_invert_n2","prop":"C01","kernel":"SequencePattern + Invert (the 'the how' shape)","bound":"2 tokens; Sequence(child, Invert(child), child)","fns":["harper_core::patterns::sequence_pattern::SequencePattern::matches","harper_core::patterns::invert::Invert::matches"],"stubs":["AnyLen child pattern"]}
pat!(c01_pat_seq_invert_n2, 2, 6, SequencePattern::default().then(AnyLen).then(Invert::new(AnyLen)).then(AnyLen));
// HV: {"name":"c01_pat_seq_invert_n3","prop":"C01","kernel":"SequencePattern + Invert (the 'the how' shape)","bound":"3 tokens; Sequence(child, Invert(child), child)","fns":["harper_core::patterns::sequence_pattern::SequencePattern::matches","harper_core::patterns::invert::Invert::matches"],"stubs":["AnyLen child pattern"],"cost":2}
pat!(c01_pat_seq_invert_n3, 3, 6, SequencePattern::default().then(AnyLen).then(Invert::new(AnyLen)).then(AnyLen));

// HV: {"name":"c01_pat_repeating_n0","prop":"C01","kernel":"RepeatingPattern::matches","bound":"0 tokens; arbitrary child; required repetitions symbolic","fns":["harper_core::patterns::repeating_pattern::RepeatingPattern::matches"],"stubs":["AnyLen child pattern"]}
pat!(c01_pat_repeating_n0, 0, 6, RepeatingPattern::new(Box::new(AnyLen), kani::any()));
// HV: {"name":"c01_pat_repeating_n2","prop":"C01","kernel":"RepeatingPattern::matches","bound":"2 tokens; arbitrary child; required repetitions symbolic; loop bounded by N+1 iterations","fns":["harper_core::patterns::repeating_pattern::RepeatingPattern::matches"],"stubs":["AnyLen child pattern"]}
pat!(c01_pat_repeating_n2, 2, 6, RepeatingPattern::new(Box::new(AnyLen), kani::any()));
// HV: {"name":"c01_pat_repeating_n3","prop":"C01","kernel":"RepeatingPattern::matches","bound":"3 tokens; arbitrary child; required repetitions symbolic","fns":["harper_core::patterns::repeating_pattern::RepeatingPattern::matches"],"stubs":["AnyLen child pattern"],"cost":2}
pat!(c01_pat_repeating_n3, 3, 6, RepeatingPattern::new(Box::new(AnyLen), kani::any()));
// HV: {"name":"c01_pat_repeating_invert_n1","prop":"C01","kernel":"RepeatingPattern over Invert","bound":"1 token; Repeating(Invert(child)): must terminate and stay in bounds","fns":["harper_core::patterns::repeating_pattern::RepeatingPattern::matches","harper_core::patterns::invert::Invert::matches"],"stubs":["AnyLen child pattern"]}
pat!(c01_pat_repeating_invert_n1, 1, 6, RepeatingPattern::new(Box::new(Invert::new(AnyLen)), kani::any()));

// HV: {"name":"c01_pat_either_n2","prop":"C01","kernel":"EitherPattern::matches","bound":"2 tokens; 2 arbitrary children","fns":["harper_core::patterns::either_pattern::EitherPattern::matches"],"stubs":["AnyLen child pattern"]}
pat!(c01_pat_either_n2, 2, 6, EitherPattern::new(vec![Box::new(AnyLen), Box::new(AnyLen)]));
// HV: {"name":"c01_pat_all_n2","prop":"C01","kernel":"All::matches","bound":"2 tokens; 2 arbitrary children","fns":["harper_core::patterns::all::All::matches"],"stubs":["AnyLen child pattern"]}
pat!(c01_pat_all_n2, 2, 6, All::new(vec![Box::new(AnyLen), Box::new(AnyLen)]));
// HV: {"name":"c01_pat_consumes_remaining_n2","prop":"C01","kernel":"ConsumesRemainingPattern::matches","bound":"2 tokens; arbitrary child","fns":["harper_core::patterns::consumes_remaining_pattern::ConsumesRemainingPattern::matches"],"stubs":["AnyLen child pattern"]}
pat!(c01_pat_consumes_remaining_n2, 2, 6, ConsumesRemainingPattern::new(Box::new(AnyLen)));
// HV: {"name":"c01_pat_naive_group_n2","prop":"C01","kernel":"NaivePatternGroup::matches","bound":"2 tokens; 2 arbitrary children","fns":["harper_core::patterns::naive_pattern_group::NaivePatternGroup::matches"],"stubs":["AnyLen child pattern"]}
pat!(c01_pat_naive_group_n2, 2, 6, {
    let mut g = NaivePatternGroup::default();
    g.push(Box::new(AnyLen));
    g.push(Box::new(AnyLen));
    g
});
// (PatternMap<T>::matches: not admitted - CBMC's dynamic-dispatch resolution makes the map recurse into itself; timeout at 900 s)

// Leaves on tokens with symbolic kinds (full 14-kind menu incl. symbolic word metadata) and ordered in-bounds spans.
fn leaf<const N: usize>(p: &dyn Pattern) {
    let src: [char; SRC] = any_chars_ascii::<SRC>();
    let toks: [Token; N] = any_tokens_ordered::<N>(SRC);
    assert!(p.matches(&toks, &src) <= N, "Pattern::matches returns at most tokens.len()");
    core::mem::forget(toks);
}
macro_rules! leafh {
    ($name:ident, $n:expr, $u:expr, $build:expr) => {
        #[kani::proof]
        #[kani::unwind($u)]
        fn $name() {
            let p = $build;
            leaf::<$n>(&p);
            core::mem::forget(p);
        }
    };
}
// HV: {"name":"c01_leaf_whitespace_n2","prop":"C01","kernel":"WhitespacePattern::matches","bound":"2 tokens (14-kind menu), ordered spans in a 4-char ASCII text","fns":["harper_core::patterns::whitespace_pattern::WhitespacePattern::matches"],"cost":3}
leafh!(c01_leaf_whitespace_n2, 2, 6, WhitespacePattern);
// HV: {"name":"c01_leaf_any_n1","prop":"C01","kernel":"AnyPattern::matches and closure patterns","bound":"0..1 tokens","fns":["harper_core::patterns::any_pattern::AnyPattern::matches"]}
#[kani::proof]
#[kani::unwind(6)]
fn c01_leaf_any_n1() {
    leaf::<0>(&AnyPattern);
    leaf::<1>(&AnyPattern);
    let closure = |t: &Token, _s: &[char]| t.kind.is_word();
    leaf::<0>(&closure);
    leaf::<1>(&closure);
}
// HV: {"name":"c01_leaf_any_capitalization_n1","prop":"C01","kernel":"AnyCapitalization::matches","bound":"1 token (14-kind menu), any in-bounds span of a 4-char ASCII text (get_content cannot panic)","fns":["harper_core::patterns::any_capitalization::AnyCapitalization::matches","harper_core::span::Span::get_content"],"cost":3}
leafh!(c01_leaf_any_capitalization_n1, 1, 6, AnyCapitalization::of("an"));
// HV: {"name":"c01_leaf_word_set_n1","prop":"C01","kernel":"WordSet::matches","bound":"1 token (14-kind menu), any in-bounds span of a 4-char ASCII text","fns":["harper_core::patterns::word_set::WordSet::matches"],"cost":3}
leafh!(c01_leaf_word_set_n1, 1, 6, WordSet::new(&["a", "an"]));
// HV: {"name":"c01_leaf_nominal_phrase_n0","prop":"C01","kernel":"NominalPhrase::matches","bound":"0 tokens","fns":["harper_core::patterns::nominal_phrase::NominalPhrase::matches"]}
leafh!(c01_leaf_nominal_phrase_n0, 0, 6, NominalPhrase);
// HV: {"name":"c01_leaf_nominal_phrase_n2","prop":"C01","kernel":"NominalPhrase::matches","bound":"2 tokens (14-kind menu with symbolic word metadata)","fns":["harper_core::patterns::nominal_phrase::NominalPhrase::matches"],"cost":4}
leafh!(c01_leaf_nominal_phrase_n2, 2, 6, NominalPhrase);
// HV: {"name":"c01_leaf_nominal_phrase_n3","prop":"C01","kernel":"NominalPhrase::matches","bound":"3 tokens (14-kind menu with symbolic word metadata): determiner, space, noun","fns":["harper_core::patterns::nominal_phrase::NominalPhrase::matches"],"cost":6}
leafh!(c01_leaf_nominal_phrase_n3, 3, 7, NominalPhrase);
// HV: {"name":"c01_leaf_implies_quantity_n1","prop":"C01","kernel":"ImpliesQuantity::matches","bound":"1 token (14-kind menu), any in-bounds span","fns":["harper_core::patterns::implies_quantity::ImpliesQuantity::matches"],"cost":3}
leafh!(c01_leaf_implies_quantity_n1, 1, 6, ImpliesQuantity);
// HV: {"name":"c01_leaf_indefinite_article_n1","prop":"C01","kernel":"IndefiniteArticle::matches","bound":"1 token (14-kind menu), any in-bounds span","fns":["harper_core::patterns::indefinite_article::IndefiniteArticle::matches"],"cost":3}
leafh!(c01_leaf_indefinite_article_n1, 1, 6, IndefiniteArticle::default());
// HV: {"name":"c01_leaf_exact_word_seq_n2","prop":"C01","kernel":"SequencePattern::then_exact_word / then_whitespace / then_any_word","bound":"2 tokens (14-kind menu): a 3-step sequence looking one token past the end","fns":["harper_core::patterns::sequence_pattern::SequencePattern::then_exact_word","harper_core::patterns::sequence_pattern::SequencePattern::matches"],"cost":4}
leafh!(c01_leaf_exact_word_seq_n2, 2, 6, SequencePattern::default().then_exact_word("an").then_whitespace().then_any_word());

// ------------------------------------------------------------------ run_on_chunk / find_all_matches
struct StubLinter {
    pat: Box<dyn Pattern>,
}
impl PatternLinter for StubLinter {
    fn pattern(&self) -> &dyn Pattern {
        self.pat.as_ref()
    }
    fn match_to_lint(&self, matched: &[Token], _source: &[char]) -> Option<Lint> {
        assert!(!matched.is_empty(), "match_to_lint never receives an empty match");
        None
    }
    fn description(&self) -> &str {
        ""
    }
}

fn run_chunk<const N: usize>() {
    let src: [char; SRC] = any_chars_ascii::<SRC>();
    let toks: [Token; N] = any_tokens_ordered_light::<N>(SRC);
    let l = StubLinter { pat: Box::new(AnyLen) };
    let lints = hk::run_on_chunk(&l, &toks, &src);
    assert!(lints.is_empty());
    core::mem::forget(lints);
    core::mem::forget(l);
    core::mem::forget(toks);
}
// HV: {"name":"c01_run_on_chunk_n0","prop":"C01","kernel":"run_on_chunk","bound":"0 tokens; arbitrary contract-obeying pattern","fns":["harper_core::linting::pattern_linter::run_on_chunk"],"stubs":["AnyLen pattern","StubLinter::match_to_lint asserts a non-empty match"]}
#[kani::proof]
#[kani::unwind(6)]
fn c01_run_on_chunk_n0() {
    run_chunk::<0>();
}
// HV: {"name":"c01_run_on_chunk_n2","prop":"C01","kernel":"run_on_chunk","bound":"2 tokens; arbitrary contract-obeying pattern; loop <= N+1 iterations","fns":["harper_core::linting::pattern_linter::run_on_chunk"],"stubs":["AnyLen pattern","StubLinter"]}
#[kani::proof]
#[kani::unwind(6)]
fn c01_run_on_chunk_n2() {
    run_chunk::<2>();
}
// HV: {"name":"c01_run_on_chunk_n3","prop":"C01","kernel":"run_on_chunk","bound":"3 tokens; arbitrary contract-obeying pattern; loop <= N+1 iterations","fns":["harper_core::linting::pattern_linter::run_on_chunk"],"stubs":["AnyLen pattern","StubLinter"],"cost":2}
#[kani::proof]
#[kani::unwind(6)]
fn c01_run_on_chunk_n3() {
    run_chunk::<3>();
}
// HV: {"name":"c01_run_on_chunk_n4","prop":"C01","tier":"thorough","kernel":"run_on_chunk","bound":"4 tokens; arbitrary contract-obeying pattern; loop <= N+1 iterations","fns":["harper_core::linting::pattern_linter::run_on_chunk"],"stubs":["AnyLen pattern","StubLinter"],"cost":3}
#[kani::proof]
#[kani::unwind(7)]
fn c01_run_on_chunk_n4() {
    run_chunk::<4>();
}

fn find_all<const N: usize>() {
    let src: [char; SRC] = any_chars_ascii::<SRC>();
    let toks: [Token; N] = any_tokens_ordered_light::<N>(SRC);
    let found = AnyLen.find_all_matches(&toks, &src);
    // every reported match is a non-empty in-range token window
    let k: usize = kani::any();
    kani::assume(k < found.len());
    assert!(found[k].start < found[k].end && found[k].end <= N, "match windows lie inside the token list");
    core::mem::forget(found);
    core::mem::forget(toks);
}
// (not admitted: out of memory at 14 GB (Vec<Span> growth + VecDeque + retain)) {"name": "c01_find_all_matches_n1", "prop": "C01", "kernel": "PatternExt::find_all_matches", "bound": "1 token; arbitrary contract-obeying pattern", "fns": ["harper_core::patterns::PatternExt::find_all_matches"], "stubs": ["AnyLen pattern"], "cost": 2}
#[kani::proof]
#[kani::unwind(6)]
fn c01_find_all_matches_n1() {
    find_all::<1>();
}
// (not admitted: out of memory at 14 GB) {"name": "c01_find_all_matches_n2", "prop": "C01", "tier": "thorough", "kernel": "PatternExt::find_all_matches", "bound": "2 tokens; arbitrary contract-obeying pattern", "fns": ["harper_core::patterns::PatternExt::find_all_matches", "harper_core::vec_ext::VecExt::remove_indices"], "stubs": ["AnyLen pattern"], "cost": 8, "mem_gb": 30, "mem_expect_gb": 16}
#[kani::proof]
#[kani::unwind(6)]
fn c01_find_all_matches_n2() {
    find_all::<2>();
}

// ------------------------------------------------------------------ doc-comment inline tags
use harper_comments::verif_hooks as ch;
use harper_core::Punctuation;

fn any_tag_token(i: usize) -> Token {
    let kind = match kani::any::<u8>() {
        0 => TokenKind::Punctuation(Punctuation::OpenCurly),
        1 => TokenKind::Punctuation(Punctuation::CloseCurly),
        2 => TokenKind::Punctuation(Punctuation::At),
        3 => TokenKind::Word(None),
        x => {
            kani::assume(x == 4);
            TokenKind::Space(1)
        }
    };
    Token { span: Span { start: i, end: i + 1 }, kind }
}

fn inline_tag<const N: usize>() {
    let toks: [Token; N] = core::array::from_fn(any_tag_token);
    if let Some(end) = ch::parse_inline_tag(&toks) {
        assert!(end >= 4 && end <= N, "an inline tag ends inside the token list");
        assert!(matches!(toks[end - 1].kind, TokenKind::Punctuation(Punctuation::CloseCurly)), "an inline tag ends at a closing brace");
    }
    core::mem::forget(toks);
}
fn mark_tags<const N: usize>() {
    let mut toks: [Token; N] = core::array::from_fn(any_tag_token);
    ch::mark_inline_tags(&mut toks);
    // spans untouched
    let k: usize = kani::any();
    kani::assume(k < N);
    assert!(toks[k].span.start == k && toks[k].span.end == k + 1);
    core::mem::forget(toks);
}
macro_rules! inst1 {
    ($name:ident, $f:ident, $l:expr, $u:expr) => {
        #[kani::proof]
        #[kani::unwind($u)]
        fn $name() {
            $f::<$l>();
        }
    };
}
// HV: {"name":"c01_inline_tag_n0","prop":"C01","kernel":"jsdoc::parse_inline_tag","bound":"0 tokens","fns":["harper_comments::comment_parsers::jsdoc::parse_inline_tag"]}
inst1!(c01_inline_tag_n0, inline_tag, 0, 3);
// HV: {"name":"c01_inline_tag_n3","prop":"C01","kernel":"jsdoc::parse_inline_tag","bound":"3 tokens from {'{','}','@',word,space} (incl. the unterminated '{@link')","fns":["harper_comments::comment_parsers::jsdoc::parse_inline_tag"]}
inst1!(c01_inline_tag_n3, inline_tag, 3, 6);
// HV: {"name":"c01_inline_tag_n4","prop":"C01","kernel":"jsdoc::parse_inline_tag","bound":"4 tokens from {'{','}','@',word,space}","fns":["harper_comments::comment_parsers::jsdoc::parse_inline_tag"]}
inst1!(c01_inline_tag_n4, inline_tag, 4, 7);
// HV: {"name":"c01_inline_tag_n6","prop":"C01","tier":"thorough","kernel":"jsdoc::parse_inline_tag","bound":"6 tokens from {'{','}','@',word,space}","fns":["harper_comments::comment_parsers::jsdoc::parse_inline_tag"],"cost":3}
inst1!(c01_inline_tag_n6, inline_tag, 6, 9);
// (not admitted: the real code compares TokenKind with ==, whose derived PartialEq reaches Option<Tense>::eq on an uninhabited enum and crashes the Kani compiler) {"name":"c01_mark_inline_tags_n3","prop":"C01","kernel":"jsdoc::mark_inline_tags","bound":"3 tokens from {'{','}','@',word,space}","fns":["harper_comments::comment_parsers::jsdoc::mark_inline_tags","harper_comments::comment_parsers::jsdoc::parse_inline_tag"]}
inst1!(c01_mark_inline_tags_n3, mark_tags, 3, 6);
// (not admitted: the real code compares TokenKind with ==, whose derived PartialEq reaches Option<Tense>::eq on an uninhabited enum and crashes the Kani compiler) {"name":"c01_mark_inline_tags_n5","prop":"C01","kernel":"jsdoc::mark_inline_tags","bound":"5 tokens from {'{','}','@',word,space}","fns":["harper_comments::comment_parsers::jsdoc::mark_inline_tags","harper_comments::comment_parsers::jsdoc::parse_inline_tag"],"cost":3}
inst1!(c01_mark_inline_tags_n5, mark_tags, 5, 8);
// (not admitted: the real code compares TokenKind with ==, whose derived PartialEq reaches Option<Tense>::eq on an uninhabited enum and crashes the Kani compiler) {"name":"c01_mark_inline_tags_n6","prop":"C01","tier":"thorough","kernel":"jsdoc::mark_inline_tags","bound":"6 tokens from {'{','}','@',word,space}","fns":["harper_comments::comment_parsers::jsdoc::mark_inline_tags","harper_comments::comment_parsers::jsdoc::parse_inline_tag"],"cost":5}
inst1!(c01_mark_inline_tags_n6, mark_tags, 6, 9);

// without_initiators: start <= end <= len so the Span::new inside cannot panic
fn initiators<const L: usize>() {
    let src: [char; L] = any_chars_d::<L>();
    let s = ch::without_initiators(&src);
    assert!(s.start <= s.end && s.end <= L);
}
// HV: {"name":"c01_without_initiators_l0","prop":"C01","kernel":"comment_parsers::without_initiators","bound":"empty comment","fns":["harper_comments::comment_parsers::without_initiators"]}
inst1!(c01_without_initiators_l0, initiators, 0, 3);
// HV: {"name":"c01_without_initiators_l3","prop":"C01","kernel":"comment_parsers::without_initiators","bound":"every comment text of 3 chars from domain D","fns":["harper_comments::comment_parsers::without_initiators"]}
inst1!(c01_without_initiators_l3, initiators, 3, 6);
// HV: {"name":"c01_without_initiators_l4","prop":"C01","kernel":"comment_parsers::without_initiators","bound":"every comment text of 4 chars from domain D","fns":["harper_comments::comment_parsers::without_initiators"],"cost":2}
inst1!(c01_without_initiators_l4, initiators, 4, 7);
// HV: {"name":"c01_without_initiators_l6","prop":"C01","tier":"thorough","kernel":"comment_parsers::without_initiators","bound":"every comment text of 6 chars from domain D","fns":["harper_comments::comment_parsers::without_initiators"],"cost":4}
inst1!(c01_without_initiators_l6, initiators, 6, 9);

// ------------------------------------------------------------------ edit distance: no u8 overflow / OOB
fn dist_safe<const A: usize, const B: usize>() {
    let a: [char; A] = any_chars::<A>();
    let b: [char; B] = any_chars::<B>();
    let d = hk::edit_distance(&a, &b);
    assert!(d as usize <= if A > B { A } else { B }, "distance bounded by the longer length");
}
// HV: {"name":"c01_edit_distance_safe_3x3","prop":"C01","kernel":"edit_distance_min_alloc","bound":"3 x 3 chars (any char): no overflow, no out-of-bounds","fns":["harper_core::edit_distance::edit_distance_min_alloc"],"cost":2}
#[kani::proof]
#[kani::unwind(7)]
fn c01_edit_distance_safe_3x3() {
    dist_safe::<3, 3>();
}

//! C17 — ordinal suffixes are judged correctly for every number.
use harper_core::linting::{CorrectNumberSuffix, Linter, Suggestion};
use harper_core::{Document, Lrc, Number, NumberSuffix, Span, Token, TokenKind};

/// Independent statement of the English rule.
fn spec_suffix(n: u64) -> NumberSuffix {
    let h = n % 100;
    if h == 11 || h == 12 || h == 13 {
        return NumberSuffix::Th;
    }
    match n % 10 {
        1 => NumberSuffix::St,
        2 => NumberSuffix::Nd,
        3 => NumberSuffix::Rd,
        _ => NumberSuffix::Th,
    }
}

fn any_suffix() -> NumberSuffix {
    match kani::any::<u8>() & 3 {
        0 => NumberSuffix::Th,
        1 => NumberSuffix::St,
        2 => NumberSuffix::Nd,
        _ => NumberSuffix::Rd,
    }
}

// HV: {"name":"c17_suffix_rule_2p24","prop":"C17","tier":"quick","kernel":"NumberSuffix::correct_suffix_for","bound":"every integer n < 2^24 (as f64), one query","fns":["harper_core::number::NumberSuffix::correct_suffix_for"]}
#[kani::proof]
fn c17_suffix_rule_2p24() {
    let n: u64 = kani::any();
    kani::assume(n < (1u64 << 24));
    let got = NumberSuffix::correct_suffix_for(n as f64);
    assert!(got == Some(spec_suffix(n)));
    kani::cover!(n % 100 == 12 && n > 1000, "teens above one thousand reachable");
}

// HV: {"name": "c17_suffix_rule_2p53", "prop": "C17", "tier": "quick", "kernel": "NumberSuffix::correct_suffix_for", "bound": "every integer n < 2^53 (as f64), one query", "fns": ["harper_core::number::NumberSuffix::correct_suffix_for"], "timeout_s": 900, "cost": 5}
#[kani::proof]
fn c17_suffix_rule_2p53() {
    let n: u64 = kani::any();
    kani::assume(n < (1u64 << 53));
    let got = NumberSuffix::correct_suffix_for(n as f64);
    assert!(got == Some(spec_suffix(n)));
    kani::cover!(n % 100 == 12 && n > (1u64 << 40), "teens above 2^40 reachable");
}

// HV: {"name":"c17_suffix_rule_rejects","prop":"C17","tier":"quick","kernel":"NumberSuffix::correct_suffix_for","bound":"every f64 that is negative or has a fractional part > EPSILON: None","fns":["harper_core::number::NumberSuffix::correct_suffix_for"]}
#[kani::proof]
fn c17_suffix_rule_rejects() {
    let x: f64 = kani::any();
    kani::assume(x.is_finite());
    kani::assume(x < 0.0 || x - x.floor() > f64::EPSILON);
    assert!(NumberSuffix::correct_suffix_for(x).is_none());
    kani::cover!(x > 1.0 && x < 2.0, "fractional input reachable");
}

/// `from_chars` accepts exactly the 16 case variants of st/nd/rd/th and `to_chars` gives back
/// the lower-case pair — for every pair of Unicode scalar values.
// HV: {"name":"c17_suffix_chars","prop":"C17","tier":"quick","kernel":"NumberSuffix::from_chars/to_chars","bound":"every (char, char) pair and a third arbitrary char; slice lengths 0..=3","fns":["harper_core::number::NumberSuffix::from_chars","harper_core::number::NumberSuffix::to_chars"]}
#[kani::proof]
#[kani::unwind(4)]
fn c17_suffix_chars() {
    let buf: [char; 3] = [kani::any(), kani::any(), kani::any()];
    let len: usize = kani::any();
    kani::assume(len <= 3);
    let got = NumberSuffix::from_chars(&buf[..len]);
    let a = buf[0].to_ascii_lowercase();
    let b = buf[1].to_ascii_lowercase();
    let want = if len < 2 {
        None
    } else if a == 's' && b == 't' {
        Some(NumberSuffix::St)
    } else if a == 'n' && b == 'd' {
        Some(NumberSuffix::Nd)
    } else if a == 'r' && b == 'd' {
        Some(NumberSuffix::Rd)
    } else if a == 't' && b == 'h' {
        Some(NumberSuffix::Th)
    } else {
        None
    };
    assert!(got == want);
    if let Some(s) = got {
        let back = s.to_chars();
        assert!(back.len() == 2);
        assert!(back[0] == a && back[1] == b);
        core::mem::forget(back);
    }
    kani::cover!(got == Some(NumberSuffix::Rd) && buf[0] == 'R', "upper-case variant reachable");
}

/// The rule itself on a document that consists of one number token carrying a suffix, at a
/// symbolic offset of an 8-char source (what `condense_number_suffixes` produces).
fn lint_one_number(nmax: u64) {
    let n: u64 = kani::any();
    kani::assume(n < nmax);
    let sfx = any_suffix();
    let start: usize = kani::any();
    let width: usize = kani::any();
    kani::assume(width >= 3 && width <= 6 && start <= 8 - width);
    let tok = Token {
        span: Span { start, end: start + width },
        kind: TokenKind::Number(Number {
            value: (n as f64).into(),
            suffix: Some(sfx),
            radix: 10,
            precision: 0,
        }),
    };
    let source = Lrc::new(vec!['x'; 8]);
    let doc = Document::verif_from_parts(source, vec![tok]);
    let lints = CorrectNumberSuffix.lint(&doc);
    let want = spec_suffix(n);
    if sfx == want {
        assert!(lints.is_empty());
    } else {
        assert!(lints.len() == 1);
        let l = &lints[0];
        assert!(l.span.start == start + width - 2 && l.span.end == start + width);
        assert!(l.suggestions.len() == 1);
        match &l.suggestions[0] {
            Suggestion::ReplaceWith(v) => {
                let w = want.to_chars();
                assert!(v.len() == 2 && v[0] == w[0] && v[1] == w[1]);
                core::mem::forget(w);
            }
            _ => panic!("wrong suggestion kind"),
        }
    }
    kani::cover!(lints.len() == 1, "a lint is produced");
    kani::cover!(lints.is_empty(), "no lint is produced");
    core::mem::forget(lints);
    core::mem::forget(doc);
}

// HV: {"name":"c17_lint_one_number_1000","prop":"C17","tier":"quick","kernel":"CorrectNumberSuffix::lint","bound":"one Number token, n < 1000, 4 suffixes, width 3..=6 at any offset of an 8-char source","fns":["harper_core::linting::correct_number_suffix::CorrectNumberSuffix::lint","harper_core::number::NumberSuffix::correct_suffix_for","harper_core::span::Span::pulled_by"]}
#[kani::proof]
#[kani::unwind(10)]
fn c17_lint_one_number_1000() {
    lint_one_number(1000);
}

// HV: {"name": "c17_lint_one_number_2p53", "prop": "C17", "tier": "quick", "kernel": "CorrectNumberSuffix::lint", "bound": "one Number token, n < 2^53, 4 suffixes, width 3..=6 at any offset of an 8-char source", "fns": ["harper_core::linting::correct_number_suffix::CorrectNumberSuffix::lint", "harper_core::number::NumberSuffix::correct_suffix_for"], "timeout_s": 900, "cost": 6}
#[kani::proof]
#[kani::unwind(10)]
fn c17_lint_one_number_2p53() {
    lint_one_number(1u64 << 53);
}

/// "<number><suffix>" must reach the rule as a number: the 4-digit-decade lexer (`1980s`) may
/// not swallow the `s` of an `st` suffix (`1980st` is the ordinal 1980 with a wrong suffix).
// HV: {"name":"c17_decade_vs_suffix","prop":"C17","tier":"quick","kernel":"lex_long_decade vs. ordinal suffix","bound":"every [12]dd0 followed by s + any char, then any 2 further chars (any Unicode scalar)","fns":["harper_core::lexing::lex_long_decade","harper_core::number::NumberSuffix::from_chars"]}
#[kani::proof]
#[kani::unwind(10)]
fn c17_decade_vs_suffix() {
    let src: [char; 8] = crate::util::any_chars::<8>();
    let len: usize = kani::any();
    kani::assume(len >= 5 && len <= 8);
    let text = &src[..len];
    let is_decade_text = (text[0] == '1' || text[0] == '2')
        && text[1].is_ascii_digit()
        && text[2].is_ascii_digit()
        && text[3] == '0'
        && text[4] == 's';
    kani::assume(is_decade_text);
    let found = harper_core::verif_hooks::lex_long_decade(text);
    // if the characters after the digits form an ordinal suffix, this is "<number><suffix>"
    if NumberSuffix::from_chars(&text[4..]).is_some() {
        assert!(found.is_none(), "a number directly followed by an ordinal suffix is not lexed as a decade");
    }
    kani::cover!(len == 6 && found.is_none(), "number + st reachable");
    kani::cover!(len == 5 && found.is_some(), "plain decade still lexed");
    core::mem::forget(found);
}

//! Native replay of C16 counterexamples against the real `harper_wasm::Linter` (curated dictionary, all curated rules).
use harper_wasm::{Dialect, Language, Linter};

fn main() {
    let args: Vec<String> = std::env::args().collect();
    match args.get(1).map(|s| s.as_str()) {
        Some("api") => std::process::exit(api_case(&args[2..])),
        Some("words") => std::process::exit(words_case(&args[2..])),
        Some("title") => std::process::exit(title_case(&args[2])),
        _ => { eprintln!("usage: replay_wasm api <text>... | words <word>..."); std::process::exit(2) }
    }
}

/// lint / ignore_lint / apply_suggestion on the given texts (and a few fixed ones that make several rules fire).
fn api_case(texts: &[String]) -> i32 {
    let mut all: Vec<String> = texts.to_vec();
    all.extend(["Teh teh cat. There is an an error hear, i think.".to_string(), "this is  a a test.\n\nAnd and so on.".to_string()]);
    let mut bad = 0;
    for text in &all {
        let mut linter = Linter::new(Dialect::American);
        let cfg_before = linter.get_lint_config_as_json();
        let chars: Vec<char> = text.chars().collect();
        let lints = linter.lint(text.clone(), Language::Plain);
        if linter.get_lint_config_as_json() != cfg_before { println!("VIOLATED: lint() changed the rule configuration"); bad = 1; }
        let spans: Vec<(usize, usize)> = lints.iter().map(|l| (l.span().start, l.span().end)).collect();
        for (i, l) in lints.iter().enumerate() {
            let (s, e) = spans[i];
            if s > e || e > chars.len() { println!("VIOLATED: lint {i} {:?} lies outside {text:?}", spans[i]); bad = 1; continue; }
            if l.get_problem_text() != chars[s..e].iter().collect::<String>() { println!("VIOLATED: lint {i} of {text:?} has problem text {:?}, the text at its span is {:?}", l.get_problem_text(), chars[s..e].iter().collect::<String>()); bad = 1; }
            for j in 0..i { let (s2, e2) = spans[j]; if s < e2 && s2 < e { println!("VIOLATED: lints {:?} and {:?} of {text:?} overlap", spans[j], spans[i]); bad = 1; } }
            for sug in l.suggestions() {
                let got = linter.apply_suggestion(text.clone(), l, &sug).unwrap_or_default();
                let rep = sug.get_replacement_text();
                let want: String = match sug.kind() {
                    harper_wasm::SuggestionKind::Replace => chars[..s].iter().collect::<String>() + &rep + &chars[e..].iter().collect::<String>(),
                    harper_wasm::SuggestionKind::Remove => chars[..s].iter().collect::<String>() + &chars[e..].iter().collect::<String>(),
                    harper_wasm::SuggestionKind::InsertAfter => chars[..e].iter().collect::<String>() + &rep + &chars[e..].iter().collect::<String>(),
                };
                if got != want { println!("VIOLATED: apply_suggestion on {:?} of {text:?} gives {got:?}, expected {want:?}", spans[i]); bad = 1; }
            }
        }
        // ignore each lint in turn on a fresh linter: it disappears, lints with another message / span text stay
        for (i, _) in lints.iter().enumerate() {
            let mut lt = Linter::new(Dialect::American);
            let first = lt.lint(text.clone(), Language::Plain);
            let key = |l: &harper_wasm::Lint| (l.span().start, l.span().end, l.message());
            let victim_key = key(&first[i]);
            let others: Vec<_> = first.iter().enumerate().filter(|(j, l)| *j != i && l.message() != victim_key.2).map(|(_, l)| key(l)).collect();
            let victim = first.into_iter().nth(i).unwrap();
            lt.ignore_lint(text.clone(), victim);
            let after: Vec<_> = lt.lint(text.clone(), Language::Plain).iter().map(key).collect();
            if after.contains(&victim_key) { println!("VIOLATED: the ignored lint {victim_key:?} of {text:?} is returned again"); bad = 1; }
            for o in &others { if !after.contains(o) { println!("VIOLATED: ignoring {victim_key:?} in {text:?} also removed {o:?}"); bad = 1; } }
        }
    }
    if bad == 0 { println!("ok: linter API is self-consistent on {} texts", all.len()); }
    bad
}

/// import_words / export_words with words that the curated dictionary knows only in another capitalisation, and config survival.
fn words_case(words: &[String]) -> i32 {
    let mut bad = 0;
    let mut all: Vec<String> = words.to_vec();
    all.extend(["markdown".to_string(), "paris".to_string(), "zxqv".to_string()]);
    for w in &all {
        let mut linter = Linter::new(Dialect::American);
        if linter.set_lint_config_from_json("{\"SpellCheck\": true, \"SentenceCapitalization\": false, \"RepeatedWords\": false}".to_string()).is_err() { println!("config rejected"); return 2; }
        let text = format!("The {w} is here.");
        let flagged = |l: &mut Linter| l.lint(text.clone(), Language::Plain).iter().any(|x| x.get_problem_text() == *w);
        let before = flagged(&mut linter);
        linter.import_words(vec![w.clone()]);
        linter.import_words(vec![w.clone()]);
        if linter.export_words() != vec![w.clone()] { println!("VIOLATED: export_words() = {:?} after importing {w:?}", linter.export_words()); bad = 1; }
        if flagged(&mut linter) { println!("VIOLATED: {w:?} is still flagged after import_words (flagged before: {before})"); bad = 1; }
        let cfg: serde_json::Value = serde_json::from_str(&linter.get_lint_config_as_json()).unwrap();
        if cfg["SpellCheck"] != serde_json::Value::Bool(true) || cfg["SentenceCapitalization"] != serde_json::Value::Bool(false) || cfg["RepeatedWords"] != serde_json::Value::Bool(false) {
            println!("VIOLATED: importing {w:?} changed explicit rule choices: SpellCheck={} SentenceCapitalization={} RepeatedWords={}", cfg["SpellCheck"], cfg["SentenceCapitalization"], cfg["RepeatedWords"]); bad = 1;
        }
    }
    if bad == 0 { println!("ok: custom words behave for {all:?}"); }
    bad
}


/// The exported `to_title_case`: same length, only letter case changes (apostrophe normalisation aside), idempotent.
fn title_case(text: &str) -> i32 {
    let mut bad = 0;
    for t in [text.to_string(), format!("{text}\n"), format!("a tale\r\nof {text}")] {
        let out = harper_wasm::to_title_case(t.clone());
        let a: Vec<char> = t.chars().collect();
        let b: Vec<char> = out.chars().collect();
        let fold = |c: char| match c { '\u{2019}' | '\u{2018}' => '\'', c => c.to_lowercase().next().unwrap() };
        if a.len() != b.len() || a.iter().zip(&b).any(|(x, y)| fold(*x) != fold(*y)) { println!("VIOLATED: to_title_case({t:?}) = {out:?}: more than letter case changed"); bad = 1; }
        if harper_wasm::to_title_case(out.clone()) != out { println!("VIOLATED: to_title_case is not idempotent on {t:?}"); bad = 1; }
    }
    if bad == 0 { println!("ok: to_title_case on {text:?}"); }
    bad
}

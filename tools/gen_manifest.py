#!/usr/bin/env python3
"""Regenerates /verif/MANIFEST.json from the tables below and validates it against the schema."""
import json, os, subprocess, sys

ROOT = os.path.dirname(os.path.dirname(os.path.abspath(__file__)))

TECH = ("bounded model checking of the compiled Rust code: Kani 0.68 -> CBMC 6.11 -> SAT (cadical); symbolic inputs "
        "via kani::any(), unwinding assertions on, counterexamples replayed natively with cargo kani playback")

TECH2 = TECH + "; for C01, C02, C03, C04, C05, C11, C12, C13, C15 additionally path-forking symbolic execution of rustc's MIR with z3 (mirsym)"

TECH_MIRSYM = ("symbolic execution of the real code's MIR (rustc -Zunpretty=mir of /repo's current tree) with z3 deciding every branch and "
               "post-condition over fully symbolic inputs within stated bounds (mirsym, /verif/mirsym); counterexamples replayed natively "
               "through the public API before being reported")
MIRSYM_ONLY = {"C06", "C14", "C16", "C18"}

CLAIMED = {
    # id: (level text, level_note, design_ref)
    "C01": (
        "Kernel-level bounded model checking of the code the property's anchors name: every lexer (lex_url, lex_hostname_token, "
        "lex_email_address, lex_hex_number, lex_long_decade, lex_regexish, lex_plural_digit, lex_punctuation, lex_spaces/tabs/newlines, "
        "lex_word, lex_catch) returns normally on every text up to the stated length over all Unicode scalar values and consumes "
        "1..=len chars (the premise of PlainEnglish::parse's loop); every pattern combinator (Sequence, Invert, Repeating, Either, All, "
        "ConsumesRemaining, NaivePatternGroup) and leaf pattern obeys matches() <= tokens.len() for arbitrary contract-obeying children "
        "(assume-guarantee, so any nesting depth) on 0..=3 tokens; run_on_chunk neither panics nor loops; jsdoc::parse_inline_tag "
        "terminates and stays in bounds; without_initiators cannot reach Span::new's panic; edit_distance cannot overflow. Panics, "
        "overflow, out-of-bounds and unwinding assertions are all checked by the solver; hangs are confirmed natively. mirsym "
        "(MIR symbolic execution): lex_hex_number on '0x' + 1, 8, 16, 17 (18, 24) symbolic hex digits cannot panic at the u64 "
        "boundary of from_str_radix, and lex_url on a concrete URL prefix with 2 (3) fully symbolic characters at the end of its path, "
        "credential and port parts cannot panic; the comment wrappers Unit/Go/JsDoc::parse (stub inner parser) cannot panic on any "
        "comment text of 3-4 (5-6) symbolic characters (kernel shared with C04). Rule sweep: for 47 of the 51 rules that "
        "LintGroup::new_curated registers by name, the real <Rule as Linter>::lint - with the rule's own Pattern object built by "
        "executing its real Default::default(), run_on_chunk and match_to_lint - is executed on every document of 2-3 (4) tokens "
        "over {word, space, comma, newline} with symbolic letters and arbitrary, lazily decided dictionary metadata per word: the "
        "rule returns normally (no panic / unreachable / failed bounds or overflow assert).",
        "Kernels only. Outside the claim: real pulldown-cmark/HTML/Typst/Literate-Haskell/tree-sitter front-ends, documents longer "
        "than the bounds, the table-driven rules (phrase corrections, compounds, proper nouns), four rules whose constructors are "
        "too slow to execute (BackInTheDay, Hedging, OutOfDate, Oxymorons), SpellCheck / InflectedVerbAfterTo / "
        "SentenceCapitalization, lex_number's f64 parsing, "
        "mark_inline_tags and PatternMap (Kani limitations, DESIGN.md). Unicode table look-ups are replaced by nondeterministic stubs "
        "(over-approximation). Trusted: Kani, CBMC, cadical, harness specs.",
        "DESIGN.md section 4, C01"),
    "C02": (
        "Kernel-level bounded model checking of lexical shape: for every text within the bound, lex_spaces/tabs/newlines yield "
        "Space(k)/Space(2k)/Newline(k) over exactly the maximal run; lex_word and lex_plural_digit tokens contain no whitespace or "
        "punctuation; lex_punctuation agrees with an independent table for every Unicode scalar and quotes start unpaired; "
        "lex_hex_number's value equals the value its text denotes; lex_long_decade matches exactly [12]dd0s not followed by a letter/"
        "digit; URL/hostname tokens contain no blanks; Document::match_quotes pairs quotes mutually, in range and in order for every "
        "quote/non-quote sequence of up to 4 (5) tokens; PlainEnglish::parse tiles every ASCII text of <= 2 chars (thorough). "
        "mirsym (MIR symbolic execution, z3): each of condense_spaces, condense_newlines, newlines_to_breaks, "
        "condense_dotted_initialisms, condense_number_suffixes (+ condense_indices) and match_quotes, executed from rustc's MIR on "
        "every document of 1..=4 (5) tokens tiling a text (symbolic boundaries, kinds forked from the pass's menu, symbolic "
        "characters), leaves the tokens an exact tiling of the text - no character lost or duplicated - and a number token that "
        "received an ordinal suffix covers exactly its digits plus the two suffix letters; no MIR assert (overflow/bounds) can fail; "
        "the whole Document::parse pipeline on 2-4 (5) tokens keeps the tiling and pairs quotes mutually. Markdown front-end: "
        "<Markdown as Parser>::parse (byte->char bookkeeping, event match, wikilink passes) on every text of 3 (4) fully symbolic "
        "characters of any UTF-8 width with pulldown-cmark replaced by a contract-bound stub event stream (one block, <= 2 inline "
        "events with ordered byte ranges on char boundaries): no panic, one token per event located on the characters the event "
        "covers, tokens in bounds and in order.",
        "Outside the claim: real pulldown-cmark event streams beyond the stub's contract, HTML/Typst/comment front-ends, Mask::parse, CollapseIdentifiers, IsolateEnglish, "
        "decimal number values. mirsym assumes lexer shape invariants (one-char punctuation, Space/Newline counts match widths, no "
        "adjacent words/numbers) and trusts hand-written contracts for std calls (models.py); counterexamples are replayed through "
        "the public API (Document::new_plain_english_curated) before being reported.",
        "DESIGN.md section 4, C02"),
    "C03": (
        "The edit primitive is decided exhaustively within bounds: Suggestion::apply equals a reference splice for Remove (texts <= 4 "
        "(5) chars, every span), ReplaceWith and InsertAfter (texts <= 3 (4) chars, replacement <= 2 (3) chars, every span, all "
        "characters symbolic), including the equal-length in-place path, empty spans and spans touching either end; "
        "replace_with_match_case keeps length and letters; the Span algebra used to rebase cached lints (pull_by/push_by/pulled_by/"
        "pushed_by/with_offset, overlaps_with, contains, with_len, try_get_content) is decided over full-width usize; "
        "TokenStringExt::span is the tight in-bounds hull of its tokens. mirsym: the span rebasing of LintGroup::lint's clause cache "
        "(see C05) - cached lints land on the right characters when a clause recurs at another offset; the Markdown front-end places "
        "every token on the characters of its event for texts with multi-byte characters (kernel of C02), so token-hull lint spans "
        "lie in the text; rule sweep (see C01): every lint of 47 real rules satisfies start <= end <= text length on every "
        "document of 2 (3) tokens with arbitrary word metadata.",
        "Edit primitive, span plumbing and the cache rebasing of LintGroup::lint (with stub rules). 'Each reported lint's span lies in "
        "the text' is decided for 47 named rules on documents of 2 (3) tokens only (rule sweep, see C01), NOT for the ~230 "
        "table-driven rules or longer documents.",
        "DESIGN.md section 4, C03"),
    "C04": (
        "Narrow kernel decided by MIR symbolic execution (mirsym, z3): the comment wrappers of harper-comments - Unit::parse, "
        "Go::parse, JsDoc::parse with without_initiators, parse_line, mark_inline_tags - executed on every comment text of 3-4 (5-6) "
        "fully symbolic characters with the inner (Markdown) parser replaced by a stub that returns one word token over exactly the "
        "slice it is handed: no panic; every word token of the result lies exactly on the characters the inner parser saw (true "
        "offset after stripping leaders, splitting lines, skipping go: directives); inserted Newline tokens are one character wide "
        "and sit on line feeds; tokens are ordered and inside the comment. Markdown::parse (kernel of C02, pulldown-cmark stubbed "
        "by contract) hands the inner parser exactly the characters of each text event at their true character offsets whatever "
        "multi-byte characters precede them, and turns code spans, HTML and ignored link titles into Unlintable tokens on their "
        "own characters (texts of 3-4 (5) symbolic characters); an HTML-entity event (text = one decoded character, source >= 3 "
        "characters) does not shift later events. parsers::Mask::parse with mask::Mask::{push_allowed, merge_whitespace_sep, "
        "iter_allowed} - the machinery all masked front-ends share - on texts of 3-4 (5) symbolic characters and a contract-bound stub "
        "masker with up to 2 (3) allowed spans: chunks ordered, disjoint, covering exactly what was allowed (plus whitespace-only gaps "
        "when merged), word tokens at their true offsets, paragraph breaks exactly on gaps containing a line feed. Unit::parse's code "
        "fences: on skeleton comments with a fully symbolic line, nothing inside a ``` fence is handed to the prose parser.",
        "Everything that decides WHICH characters are prose in a real file is outside: tree-sitter comment extraction and byte->char "
        "conversion (harper-tree-sitter, C FFI), the concrete maskers and ignore markers, pulldown-cmark itself, HTML, Typst, Literate "
        "Haskell, git-commit parser, JavaDoc (HtmlParser). Decided: the re-offsetting arithmetic of three comment wrappers, of Mask and "
        "of the Markdown front-end, and the comment code-fence rule, on short texts.",
        "DESIGN.md section 4, C04"),
    "C05": (
        "Kernel of the property's central mechanism, decided by MIR symbolic execution (mirsym, z3): the real "
        "<LintGroup as Linter>::lint - clause iteration, TokenStringExt::span, Document::get_span_content, the cache key, "
        "Span::pull_by on a miss, clone + Span::push_by on a hit, the is_rule_enabled gate - is executed on a LintGroup holding two "
        "stub pattern rules, an association-list model of the LRU cache and a configuration-determined hash, for (a) one call on every "
        "document of 3-4 (5) one-char tokens under all four rule configurations and (b) two successive calls on different documents "
        "of 2+3 (3+3) tokens with a rule toggled in between. On every path the lints of each call equal, in order and span, what the "
        "enabled rules produce on that document from scratch - whatever was linted before. Second kernel: the real "
        "SpellCheck::cached_suggest_correct_spelling (LRU look-up, back-off loop, dialect filter, put) called twice with words of "
        "2-3 (4-5) fully symbolic characters, suggest_correct_spelling and the dictionary stubbed as functions of the word as "
        "written: the second look-up returns the second word's suggestions whatever was looked up first.",
        "Only the clause cache and rule gate of LintGroup::lint and SpellCheck's suggestion cache. Not covered: thread-local pattern caches, "
        "lazy statics, threads/processes, harper-ls and harper-wasm reuse of a linter; LRU eviction is not modelled; documents are "
        "restricted to one-char tokens whose kind is a function of the character, so that everything a rule may see is a function "
        "of the clause text (the premise the cache relies on - a rule that looked at absolute token indices, e.g. quote twins, "
        "would violate it and is outside this kernel). Counterexamples are replayed natively with real PatternLinter "
        "implementations through LintGroup's public API (long-lived vs fresh linter).",
        "DESIGN.md section 4, C05"),
    "C06": (
        "Kernel decided by MIR symbolic execution (mirsym, z3): the real <SpellCheck<MutableDictionary> as Linter>::lint, end to end - "
        "word iteration, contains_exact_word on the word and its lower-case form, the dialect gate, the suggestion cache and back-off "
        "loop, the real suggest_correct_spelling / MutableDictionary::fuzzy_match / edit_distance_min_alloc / order_suggestions, the "
        "dialect filter, the cap at three suggestions, capitalisation of suggestions - against a real MutableDictionary (built with "
        "append_word) holding one word of 1-2 (3) fully symbolic ASCII letters with arbitrary metadata and dialect, an arbitrary active "
        "dialect, and documents of 1-3 tokens whose words are 1-2 (3) fully symbolic letters: a listed word (listed capitalisation, or "
        "capitalised / upper-case form of a lower-case entry, in the active dialect) is never reported; a word the dictionary lacks "
        "under every capitalisation is reported exactly once with exactly its span and kind Spelling; only words are reported; every "
        "suggestion is the dictionary word (up to capitalising its first letter) of the active dialect; at most three suggestions.",
        "Narrow kernel: one-word dictionaries, words <= 3 ASCII letters, the token metadata Document::parse would attach is supplied "
        "by the harness from the same dictionary. WordId's hash modelled as collision-free, hashbrown map and LRU cache as association "
        "lists. Outside the claim: the 130k-word curated dictionary and its affix expansion, the FST back-end, non-ASCII / apostrophe "
        "words, multi-word dictionaries, the other front-ends. Counterexamples are replayed through Document::new + SpellCheck::new.",
        "DESIGN.md section 4, C06"),
    "C08": (
        "The real harper-ls/src/pos_conv.rs (compiled into the harness crate) is decided for every text of <= 3 (4-5) chars over "
        "{LF, CR, a, U+1F600, TAB, e-acute} and every span: span_to_range equals an independent LSP reference (line = LFs before, "
        "character = UTF-16 units since the last LF); range_to_span(span_to_range(s)) == s without panic; a code-action request "
        "anywhere inside a diagnostic's range selects that lint (the generate_code_actions filter composed from the real functions). "
        "mirsym on the MIR of the harper-ls binary: the real DocumentState::generate_diagnostics and generate_code_actions "
        "(range_to_span, with_len, the priority sort, the overlap filter, get_token_at_char_index) on documents of 3-4 (5) fully "
        "symbolic characters with a stub linter reporting 2 (3) lints with symbolic spans and priorities: every lint is published "
        "and, at the LSP position of every character, fixes are offered for exactly the lints containing it (overlapping ones too). "
        "The quick-fix edit itself: the per-suggestion closure of diagnostics::lint_to_code_actions (span_to_range, get_content_string, "
        "format!, TextEdit construction) on documents of 3-4 (5) fully symbolic characters, a lint with any span (empty included) and a "
        "suggestion of each kind with 1-2 (3) symbolic characters: the TextEdit's range is the LSP range of exactly the lint's span and "
        "its new text is the replacement / nothing / the flagged text followed by the insertion, i.e. a client applying it obtains what "
        "Suggestion::apply yields (decided under C03).",
        "Outside the claim: Url / serde_json / RecordKind (stubbed in the edit kernel), the commands attached to a code action, ignore "
        "lists, the server loop and the language front-ends of Backend::update_document (e.g. which content change of a didChange "
        "notification is used).",
        "DESIGN.md section 4, C08"),
    "C11": (
        "Kernel decided by MIR symbolic execution (mirsym, z3): the real LintGroupConfig::{is_rule_enabled, set_rule_enabled, "
        "unset_rule_enabled, merge_from, clear, fill_with_curated} and `impl Hash for LintGroupConfig`, executed on every configuration "
        "over two rule keys (each absent / None / Some(false) / Some(true)) plus an unknown key: a rule is on exactly when it is "
        "Some(true); unknown names are harmless; setting/unsetting one rule changes that rule only; merge_from lets the overlaid "
        "configuration's explicit choices win and keeps everything else; fill_with_curated (curated table stubbed, all 16 tables) gives "
        "unset rules their curated default and keeps explicit user choices; two configurations that enable different rules never feed "
        "the same bytes to the hasher. The per-rule gate of the real <LintGroup as Linter>::lint for pattern rules (incl. through the "
        "clause cache): with two stub rules under all four configurations, with a rule toggled between two calls, and with 66 stub rules "
        "of which the 1st and the 65th are switched independently in two calls, the lints are exactly those of the enabled rules. harper-wasm: after import_words rebuilds the lint group (synchronize_lint_dict + "
        "merge_from), the explicit rule choices are unchanged (the `words` obligation of the C16 kernel).",
        "Not covered: the gate for whole-document rules (dyn Linter path), 'the lints under a configuration are the combination of what "
        "each enabled rule produces' for the ~290 real rules (beyond the scenario with 66 stub rules of which two are switchable), the JSON round trip (serde), harper-ls Config::from_lsp_config. BTreeMap<String, Option<bool>> "
        "is modelled as an ordered association list; the hasher is a recorder.",
        "DESIGN.md section 4, C11"),
    "C12": (
        "Structural kernel only: for every sequence of <= 2 (3) tokens over 10 kinds, iter_chunks / iter_sentences / iter_paragraphs "
        "yield non-empty, contiguous, in-order pieces that cover the token list exactly, each piece but the last ending in its "
        "terminator and containing no other terminator. With run_on_chunk (C01) this shows pattern rules are handed one clause at a "
        "time. mirsym: the same partition property from rustc's MIR for 0..=3 (4) tokens, and LintGroup::lint's clause cache kernel "
        "(see C05): what a clause produces does not depend on where it sits or on what was linted before; and a lexing kernel: "
        "lex_email_address, lex_url, lex_hostname_token, lex_number and lex_hex_number give the same token for a paragraph followed by "
        "a blank line whatever 2 (3) characters follow the break; SpellCheck's suggestion cache (kernel of C05) does not carry one "
        "word's suggestions over to another word of an earlier or later paragraph; rule sweep in locality mode: for each of the 24 "
        "directly implemented rules, the lints of P ++ blank line ++ D equal the lints of P followed by those of D shifted, for "
        "every P of 2 tokens (ending in a period) and D of 2 tokens with symbolic letters and arbitrary word metadata.",
        "A narrow slice of C12: every rule's own index arithmetic, whole-document linters and the condensing passes' commutation "
        "with concatenation are outside.",
        "DESIGN.md section 4, C12"),
    "C13": (
        "Two engines on the real code. Kani/CBMC: remove_overlaps on Vec<Lint> for 0..=2 lints with arbitrary spans, and "
        "VecExt::remove_indices on Vec<Token> for <= 3 (4) elements and any increasing index list. mirsym: rustc's MIR of "
        "remove_overlaps, its sort-key closure, VecExt::remove_indices and its retain closure is symbolically executed for 0..=4 (5) "
        "lints with fully symbolic 64-bit spans; z3 decides every branch and, on every path, that the output is an unaltered "
        "sub-list, pairwise conflict-free, and that each dropped lint starts inside a kept one. Counterexamples are replayed against "
        "the native build.",
        "mirsym trusts hand-written contracts for the std calls (stable sort_by_key, Vec::retain, VecDeque, slice iterators), listed "
        "in evidence; code using a std call without a model is reported inconclusive, never passed. Bounds: <= 5 lints.",
        "DESIGN.md section 4, C13"),
    "C14": (
        "Kernel decided by MIR symbolic execution (mirsym, z3): the real IgnoredLints::{ignore_lint, is_ignored, remove_ignored}, "
        "LintContext::from_lint (the two-character prequel / sequel windows, token_indices_intersecting, Token::to_fat) and the "
        "derive-generated Hash impls of LintContext, LintKind, Suggestion, FatToken and TokenKind, on documents of 3-6 word / space / "
        "period tokens with fully symbolic letters and lints with symbolic kind, message, priority and suggestion: after a lint is "
        "ignored, a lint on any token of the same document is hidden exactly when it equals the ignored one in every field and in the "
        "text and kinds of its flagged and surrounding tokens; the ignored lint stays hidden when a word more than two characters away "
        "is replaced and when text is inserted far in front of it (position independence).",
        "DefaultHasher (SipHash) is replaced by a collision-free recording hasher and HashSet<u64> by a list: hash collisions are outside "
        "the claim, as are export/import of the list (serde), number tokens (f64 hashing), harper-ls / harper-wasm glue and documents "
        "beyond 6 tokens. The token windows are re-specified independently in the harness ([s-2,s), [s,e), [s+2,s+4)). Counterexamples are "
        "replayed through IgnoredLints' public API on real plain-English documents.",
        "DESIGN.md section 4, C14"),
    "C15": (
        "Kani/CBMC: edit_distance / edit_distance_min_alloc equals the recursive Levenshtein definition for all pairs of strings up "
        "to 3x3 (4x4) chars over all Unicode scalars, is symmetric, and does not depend on the previous contents of its scratch "
        "buffers. mirsym (MIR symbolic execution, z3): the real MutableDictionary (new, append_word, WordMap, WordId::from_word_chars, "
        "CharStringExt::normalized / to_lower), the delegating FstDictionary methods and MergedDictionary's impl Dictionary, executed "
        "on dictionaries whose words are 1-3 fully symbolic ASCII letters (both cases) and a fully symbolic query: contains_word, "
        "contains_exact_word, get_word_metadata, get_correct_capitalization_of ([char] and str forms) of a MergedDictionary are the "
        "union of its parts (first part wins) and FstDictionary answers like the MutableDictionary it wraps; "
        "MutableDictionary::fuzzy_match and MergedDictionary::fuzzy_match (length window, edit_distance_min_alloc on the query and "
        "its lower-case form, sorted_unstable_by_key, take) on one or two words: every result is a dictionary word with its true "
        "Levenshtein distance within the bound, results are ordered by distance, distinct and capped at max_results, and no word "
        "within the bound is missed for a lower-case query.",
        "Bounds: words and queries of <= 3 ASCII letters, <= 2 words per dictionary, max_distance <= 2 (3). WordId's hash is modelled "
        "as collision-free, hashbrown's map as an association list iterated in insertion order. Outside the claim: the FST index and "
        "Levenshtein automata behind FstDictionary::fuzzy_match (fst / levenshtein_automata crates), the curated word list, non-ASCII "
        "words, hash collisions.",
        "DESIGN.md section 4, C15"),
    "C16": (
        "Kernel decided by MIR symbolic execution (mirsym, z3) of harper-wasm's own MIR: the Rust methods behind the wasm-bindgen "
        "wrappers - Linter::lint, ignore_lint, apply_suggestion, import_words, export_words, synchronize_lint_dict, "
        "construct_merged_dict - driving the real harper-core code (remove_overlaps, IgnoredLints / LintContext and the derived Hash "
        "impls, LintGroupConfig clone / fill_with_curated / merge_from, Span::get_content_string, Suggestion::apply, MutableDictionary, "
        "MergedDictionary). On texts of 2-3 (4) word / space / period tokens with fully symbolic letters and a stub rule engine "
        "reporting 2 (3) lints with ANY spans and symbolic message / priority / replacement: lint() returns in-bounds, pairwise "
        "disjoint lints carrying exactly the text at their span and leaves the rule configuration unchanged; after ignore_lint of any "
        "returned lint a second lint() no longer returns it but still returns every lint with another message; apply_suggestion "
        "returns the text with exactly that span edited and logs one record. Custom words: after import_words([w]) (w = 2 fully "
        "symbolic letters) export_words() = [w], the dictionary snapshot used for parsing and linting contains w exactly - also when "
        "the curated part knows the word in another capitalisation - and explicit rule choices are unchanged.",
        "Narrow kernel. Stubbed: the rule engine (<LintGroup as Linter>::lint, LintGroup::new_curated_empty_config - constructing the "
        "~290 curated rules is far beyond the engine), parsers and Document::new_from_vec, the curated dictionary (a one-word stand-in), "
        "Record::now / RecordKind::from_lint, SipHash (collision-free recording hasher). Outside the claim: the wasm-bindgen wrappers and "
        "JsValue conversions, every JSON round trip (serde), export/import of the ignore list as JSON, to_title_case, statistics files, "
        "Markdown. Counterexamples are replayed against the real harper_wasm::Linter built for the host (/verif/replay_wasm).",
        "DESIGN.md section 4, C16"),
    "C17": (
        "For every integer n < 2^53 (one SAT query over a 53-bit variable) NumberSuffix::correct_suffix_for(n as f64) equals the "
        "English ordinal rule; from_chars/to_chars are decided for every pair of Unicode scalar values; CorrectNumberSuffix::lint on a "
        "one-token document (symbolic number < 2^53, suffix, offset, width) yields exactly one lint on the last two characters with the "
        "correct replacement iff the suffix is wrong; lex_long_decade never swallows the 's' of an 'st' suffix.",
        "Outside the claim: decimal text -> f64 (str::parse::<f64>) and condense_number_suffixes' token surgery on real parser "
        "output. Trusted: Kani's f64 model, the harness-side reference rule.",
        "DESIGN.md section 4, C17"),
    "C18": (
        "Kernel decided by MIR symbolic execution (mirsym, z3): the real make_title_case + should_capitalize_token (+ WordMetadata::or, "
        "is_proper_noun, CharStringExt::to_lower, the SPECIAL_CONJUNCTIONS list read from /repo) on token sequences with ONE fully "
        "symbolic word of 2-3 (4) ASCII letters (both cases) in first / middle / last position next to the concrete unknown word 'ab', "
        "spaces and hyphens; the word's metadata (proper-noun flag, determiner, preposition) is arbitrary and the dictionary is a stub held "
        "to its contract (metadata of the lower-cased word arbitrary but fixed; canonical spelling equals the word up to letter case, or "
        "none): the result has the input's length, differs from it only in letter case, its first word starts with an upper-case letter, "
        "and title-casing the result again (same tokens) changes nothing.",
        "Narrow kernel: one symbolic word per title, metadata restricted to the parts title-casing reads, ASCII letters only (curly "
        "apostrophe normalisation of proper nouns is outside), idempotence is checked on the same token structure (re-lexing the output is "
        "outside), the curated dictionary's real answers are outside. Counterexamples are replayed through make_title_case_str with the "
        "curated dictionary and with small custom dictionaries.",
        "DESIGN.md section 4, C18"),
}

NOT_APPLICABLE = {
    "C07": "async tokio file I/O, crash points and server commands; no file-system/async model in the engine and a hand model would "
           "not be the real code",
    "C09": "concurrent async handlers over tokio Mutex/RwLock and a client round trip; Kani does not handle concurrency",
    "C10": "absence of side effects and a dependency-graph property; there is no assertion over inputs for a solver to decide",
    "C19": "serialising a Record crashes the Kani compiler and the crux (JSON escaping never emits a raw line break) lives in "
           "serde_json, whose one-character round trip gave no verdict in 15 min",
}


def main():
    props = [json.loads(l) for l in open(os.path.join(ROOT, "properties.jsonl"))]
    ids = [p["id"] for p in props]
    na = dict(NOT_APPLICABLE)
    checks = []
    for pid in ids:
        if pid in CLAIMED:
            text, note, ref = CLAIMED[pid]
            checks.append({
                "property_id": pid,
                "quick_cmd": f"./check {pid} --tier quick",
                "thorough_cmd": f"./check {pid} --tier thorough",
                "evidence_file": f"/verif/evidence/{pid}.json",
                "replay_cmd_template": "./check --replay {path}",
                "engine": "mirsym" if pid in MIRSYM_ONLY or pid in ("C04", "C05", "C11") else "kani-cbmc",
                "level_claimed": {"category": "model_checking", "text": text, "design_ref": ref},
                "level_note": note,
                "technique": TECH_MIRSYM if pid in MIRSYM_ONLY or pid in ("C04", "C05", "C11") else (TECH2 if pid in ("C13", "C02", "C01", "C03", "C12", "C15") else TECH),
            })
        elif pid not in na:
            na[pid] = "check not built yet (work in progress; see DESIGN.md)"
    m = {
        "version": 1,
        "setup_cmd": "./check --setup",
        "hooks": {
            "guard": "cfg(kani)",
            "enable": "set automatically by the Kani compiler (cargo kani); the checks build /repo through path "
                      "dependencies of /verif/harness, so hooks are on exactly when a harness is compiled",
            "baseline_off_cmd": "cd /repo && RUSTUP_TOOLCHAIN=stable-x86_64-unknown-linux-gnu cargo nextest run --workspace "
                                "--no-fail-fast --tool-config-file pb:/w/lib/nextest.toml --profile pb --test-threads 8 --offline",
            "source_commits": HOOK_COMMITS,
            "add_only": True,
        },
        "engines": [{
            "name": "kani-cbmc", "path": "/verif/check",
            "serves_properties": [c["property_id"] for c in checks],
            "kind_free_text": "Kani 0.68.0 proof harnesses in /verif/harness (path dependencies on /repo), decided by "
                              "CBMC 6.11.0 + cadical; driver /verif/check runs them in parallel under memory/time caps, "
                              "classifies results, replays counterexamples natively and writes evidence",
        }, {
            "name": "mirsym", "path": "/verif/mirsym",
            "serves_properties": ["C01", "C02", "C03", "C04", "C05", "C06", "C11", "C12", "C13", "C14", "C15", "C16", "C17", "C18"],
            "kind_free_text": "path-forking symbolic executor for rustc's textual MIR (dumped from /repo on every run with the "
                              "nightly toolchain), z3 4.x via python3-vt decides branch feasibility and post-conditions; std calls "
                              "are dispatched to hand-written contracts (models.py)",
        }],
        "checks": checks,
        "not_applicable": [{"property_id": k, "reason": v} for k, v in na.items() if k not in CLAIMED],
        "notes": "All claims are bounded (bounds per obligation in evidence/<id>.json and DESIGN.md). Exit 2 from a check "
                 "means inconclusive (out of memory, timeout, non-reproducing counterexample) and is never a pass.",
    }
    json.dump(m, open(os.path.join(ROOT, "MANIFEST.json"), "w"), indent=1)
    # validate
    try:
        import jsonschema
    except ImportError:
        r = subprocess.run(["python3-vt", "-c",
                            "import json,jsonschema,sys;"
                            "jsonschema.validate(json.load(open(sys.argv[1])),json.load(open('/root/.vp/MANIFEST.schema.json')));"
                            "print('MANIFEST valid')", os.path.join(ROOT, "MANIFEST.json")])
        return r.returncode
    jsonschema.validate(m, json.load(open("/root/.vp/MANIFEST.schema.json")))
    print("MANIFEST valid")
    return 0


HOOK_COMMITS = subprocess.run(
    ["git", "-C", "/repo", "log", "--format=%H %s", "--grep=verification hooks", "-i"],
    stdout=subprocess.PIPE, text=True).stdout.strip().splitlines()
HOOK_COMMITS = [l.split()[0] for l in HOOK_COMMITS]

if __name__ == "__main__":
    sys.exit(main())

#!/usr/bin/env python3
"""Regenerates /verif/MANIFEST.json from the tables below and validates it against the schema."""
import json, os, subprocess, sys

ROOT = os.path.dirname(os.path.dirname(os.path.abspath(__file__)))

TECH = ("bounded model checking of the compiled Rust code: Kani 0.68 -> CBMC 6.11 -> SAT (cadical); symbolic inputs "
        "via kani::any(), unwinding assertions on, counterexamples replayed natively with cargo kani playback")

CLAIMED = {
    # id: (level text, level_note, design_ref)
    "C17": (
        "For every integer n < 2^24 (quick) / n < 2^53 (thorough) the SAT solver shows "
        "NumberSuffix::correct_suffix_for(n as f64) equals the English ordinal rule; from_chars/to_chars are decided for "
        "every pair of Unicode scalar values; CorrectNumberSuffix::lint on a one-token document (symbolic number, suffix, "
        "offset, width) yields exactly one lint on the last two characters with the correct replacement iff the suffix is "
        "wrong. All values inside the bounds are covered by the solver, which is what a statement about infinitely many "
        "numbers needs; nothing outside the bounds is claimed.",
        "Outside the claim: decimal text -> f64 (str::parse::<f64>, not encodable here) and condense_number_suffixes' "
        "token surgery on real parser output (the merge is decided on small token arrays under C02). Trusted: Kani/CBMC/"
        "cadical, Kani's f64 model, the harness-side reference rule.",
        "DESIGN.md section 4, C17"),
}

NOT_APPLICABLE = {}


def main():
    props = [json.loads(l) for l in open(os.path.join(ROOT, "properties.jsonl"))]
    ids = [p["id"] for p in props]
    na = dict(NOT_APPLICABLE)
    checks = []
    for pid in ids:
        if pid in CLAIMED:
            text, note, ref = CLAIMED[pid]
            checks.append({
                "property_id": pid,
                "quick_cmd": f"./check {pid} --tier quick",
                "thorough_cmd": f"./check {pid} --tier thorough",
                "evidence_file": f"/verif/evidence/{pid}.json",
                "replay_cmd_template": "./check --replay {path}",
                "engine": "kani-cbmc",
                "level_claimed": {"category": "model_checking", "text": text, "design_ref": ref},
                "level_note": note,
                "technique": TECH,
            })
        elif pid not in na:
            na[pid] = "check not built yet (work in progress; see DESIGN.md)"
    m = {
        "version": 1,
        "setup_cmd": "./check --setup",
        "hooks": {
            "guard": "cfg(kani)",
            "enable": "set automatically by the Kani compiler (cargo kani); the checks build /repo through path "
                      "dependencies of /verif/harness, so hooks are on exactly when a harness is compiled",
            "baseline_off_cmd": "cd /repo && RUSTUP_TOOLCHAIN=stable-x86_64-unknown-linux-gnu cargo nextest run --workspace "
                                "--no-fail-fast --tool-config-file pb:/w/lib/nextest.toml --profile pb --test-threads 8 --offline",
            "source_commits": HOOK_COMMITS,
            "add_only": True,
        },
        "engines": [{
            "name": "kani-cbmc", "path": "/verif/check",
            "serves_properties": [c["property_id"] for c in checks],
            "kind_free_text": "Kani 0.68.0 proof harnesses in /verif/harness (path dependencies on /repo), decided by "
                              "CBMC 6.11.0 + cadical; driver /verif/check runs them in parallel under memory/time caps, "
                              "classifies results, replays counterexamples natively and writes evidence",
        }],
        "checks": checks,
        "not_applicable": [{"property_id": k, "reason": v} for k, v in na.items() if k not in CLAIMED],
        "notes": "All claims are bounded (bounds per obligation in evidence/<id>.json and DESIGN.md). Exit 2 from a check "
                 "means inconclusive (out of memory, timeout, non-reproducing counterexample) and is never a pass.",
    }
    json.dump(m, open(os.path.join(ROOT, "MANIFEST.json"), "w"), indent=1)
    # validate
    try:
        import jsonschema
    except ImportError:
        r = subprocess.run(["python3-vt", "-c",
                            "import json,jsonschema,sys;"
                            "jsonschema.validate(json.load(open(sys.argv[1])),json.load(open('/root/.vp/MANIFEST.schema.json')));"
                            "print('MANIFEST valid')", os.path.join(ROOT, "MANIFEST.json")])
        return r.returncode
    jsonschema.validate(m, json.load(open("/root/.vp/MANIFEST.schema.json")))
    print("MANIFEST valid")
    return 0


HOOK_COMMITS = subprocess.run(
    ["git", "-C", "/repo", "log", "--format=%H %s", "--grep=verification hooks", "-i"],
    stdout=subprocess.PIPE, text=True).stdout.strip().splitlines()
HOOK_COMMITS = [l.split()[0] for l in HOOK_COMMITS]

if __name__ == "__main__":
    sys.exit(main())

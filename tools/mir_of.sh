#!/bin/bash
# dev helper: MIR dump of a crate of /repo's HEAD with a patch applied, without touching /repo (scratch worktree /tmp/devwt)
# usage: tools/mir_of.sh <patch.diff|-> <out.mir> [crate] [bin]
set -e
P=$(realpath -m "$1"); [ "$1" = "-" ] && P=-; OUT=$(realpath -m "$2"); CRATE=${3:-harper-core}; BIN=$4
[ -d /tmp/devwt ] || git -C /repo worktree add -q --detach /tmp/devwt HEAD
cd /tmp/devwt; git checkout -q -- .; git checkout -q --detach $(git -C /repo rev-parse HEAD)
[ "$P" != "-" ] && git apply "$P"
cd $CRATE
export CARGO_TARGET_DIR=/tmp/devwt-target CARGO_NET_OFFLINE=true
if [ -n "$BIN" ]; then T="--bin $BIN"; else T="--lib"; fi
cargo +nightly rustc --offline $T -- -Zunpretty=mir -C debug-assertions=off -C overflow-checks=on --cfg "hv_mir_nonce=\"$(date +%s%N)\"" -A unexpected_cfgs > $OUT 2>/tmp/devwt-build.log || { tail -20 /tmp/devwt-build.log; exit 1; }
# the patch stays applied (sources must match the dump); the next call resets the worktree
ls -la $OUT

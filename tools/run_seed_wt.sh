#!/bin/bash
# Runs the quick check of a seed's property against a scratch worktree of /repo with the seed applied (VERIF_REPO / VERIF_WORK),
# so that several seeds can be evaluated at the same time and /repo is never touched. Writes seeded/<id>/detect.json.
# usage: tools/run_seed_wt.sh <seed-id> [property]
cd /verif
S=$1; P=${2:-$(echo $S | grep -oE 'C[0-9]+' | head -1)}
WT=/tmp/sw-$S; WK=/tmp/sw-$S-work
git -C /repo worktree remove --force $WT 2>/dev/null; rm -rf $WT $WK
git -C /repo worktree add -q --detach $WT HEAD || exit 3
git -C $WT apply /verif/seeded/$S/patch.diff || { echo "$S: patch does not apply"; git -C /repo worktree remove --force $WT; exit 4; }
mkdir -p $WK /verif/logs
T0=$(date +%s)
VERIF_REPO=$WT VERIF_WORK=$WK ./check $P --tier quick > /verif/logs/seed_$S.out 2>&1; RC=$?
T1=$(date +%s)
python3 - "$S" "$P" "$RC" "$((T1-T0))" <<'PY'
import json,sys,re
s,p,rc,secs=sys.argv[1:]
out=open(f'/verif/logs/seed_{s}.out').read()
viol=re.findall(r'^VIOLATION property=\S+ replay=(\S+)',out,re.M)
inc=re.findall(r'^INCONCLUSIVE harness=(\S+?): (.*)$',out,re.M)
failed=re.findall(r'\[(?:failed|violated)\s*\] (\S+)',out)
crashed=('Traceback' in out or 'SyntaxError' in out) and not viol
json.dump({"seed":s,"property":p,"check_exit":(3 if crashed else int(rc)),"detected":int(rc)==1 and bool(viol),"violations":[x.split('/')[-1] for x in viol],
           "failing_obligations":sorted(set(failed)),"inconclusive":[f"{a}: {b[:160]}" for a,b in inc][:6],"seconds":int(secs),
           "how":"tools/run_seed_wt.sh (scratch worktree with the patch applied, VERIF_REPO/VERIF_WORK)"},
          open(f'/verif/seeded/{s}/detect.json','w'),indent=1)
print(s,'exit',rc,'violations',len(viol),'inconclusive',len(inc),'seconds',secs)
PY
git -C /repo worktree remove --force $WT; rm -rf $WK

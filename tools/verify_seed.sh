#!/bin/bash
# usage: verify_seed.sh <worktree> <seed_k> <property> <seed-id> <crate> <demo-test-name>
# Confirms independently: (1) demo passes at HEAD, (2) with patch: workspace suite passes,
# (3) with patch: demo fails. Stores patch/demo/meta under /verif/seeded/<seed-id>/.
set -u
WT=$1; K=$2; PROP=$3; SID=$4; CRATE=$5; DEMO=$6
export RUSTUP_TOOLCHAIN=stable-x86_64-unknown-linux-gnu
OUT=/verif/seeded/$SID; mkdir -p $OUT
LOG=$OUT/verify.log; : > $LOG
cd $WT || exit 9
git checkout -q -- . ; rm -f $CRATE/tests/$DEMO.rs
mkdir -p $CRATE/tests; cp seed_$K/demo.rs $CRATE/tests/$DEMO.rs
echo "## demo at HEAD" >> $LOG
cargo test -p $CRATE --offline -j 8 --test $DEMO >> $LOG 2>&1; RC_HEAD=$?
git apply seed_$K/patch.diff || { echo "PATCH DOES NOT APPLY" | tee -a $LOG; exit 8; }
echo "## demo with patch" >> $LOG
cargo test -p $CRATE --offline -j 8 --test $DEMO >> $LOG 2>&1; RC_DEMO=$?
rm -f $CRATE/tests/$DEMO.rs
echo "## workspace suite with patch" >> $LOG
cargo test --workspace --offline -j 8 --no-fail-fast > $OUT/suite_with_patch.log 2>&1; RC_SUITE=$?
PASSED=$(grep -E "^test result:" $OUT/suite_with_patch.log | awk '{s+=$4} END {print s}')
FAILED=$(grep -E "^test result:" $OUT/suite_with_patch.log | awk '{s+=$6} END {print s}')
tail -c 3000 $OUT/suite_with_patch.log >> $LOG; rm -f $OUT/suite_with_patch.log
git checkout -q -- .
cp seed_$K/patch.diff $OUT/patch.diff; cp seed_$K/demo.rs $OUT/demo.rs; cp seed_$K/notes.md $OUT/notes.md
echo "$SID: demo@HEAD rc=$RC_HEAD (want 0); demo@patch rc=$RC_DEMO (want !=0); suite@patch rc=$RC_SUITE passed=$PASSED failed=$FAILED (want rc 0, failed 0)"
python3 - "$OUT" "$PROP" "$SID" "$CRATE" "$DEMO" "$RC_HEAD" "$RC_DEMO" "$RC_SUITE" "$PASSED" "$FAILED" <<'E'
import json,sys
out,prop,sid,crate,demo,rh,rd,rs,p,f=sys.argv[1:]
ok = rh=='0' and rd!='0' and rs=='0' and f=='0'
json.dump({"seed":sid,"property":prop,"confirmed":ok,
 "demo":{"file":"demo.rs","install":f"cp demo.rs /repo/{crate}/tests/{demo}.rs","run":f"RUSTUP_TOOLCHAIN=stable-x86_64-unknown-linux-gnu cargo test -p {crate} --offline --test {demo}"},
 "what_i_ran":{"demo_at_HEAD_exit":int(rh),"demo_with_patch_exit":int(rd),"workspace_suite_with_patch_exit":int(rs),"suite_tests_passed":int(p or 0),"suite_tests_failed":int(f or 0),
   "commands":["git apply patch.diff","cargo test -p %s --offline --test %s"%(crate,demo),"cargo test --workspace --offline --no-fail-fast"]},
 "needs_to_manifest":"see notes.md (written by the sub-agent that produced the change)"},open(out+"/meta.json","w"),indent=1)
E

#!/bin/bash
# dev helper: run a tier of some properties against a clean scratch worktree of /repo's HEAD (so that /repo and /verif's evidence
# are left alone). usage: tools/run_tier_wt.sh <tier> <property>...
cd /verif
TIER=$1; shift
WT=/tmp/tier-wt; WK=/tmp/tier-work
git -C /repo worktree remove --force $WT 2>/dev/null; rm -rf $WT
git -C /repo worktree add -q --detach $WT HEAD || exit 3
mkdir -p $WK
for P in "$@"; do
  T0=$(date +%s)
  VERIF_REPO=$WT VERIF_WORK=$WK ./check $P --tier $TIER > /verif/logs/tier_${TIER}_$P.out 2>&1; RC=$?
  echo "$P $TIER rc=$RC $(( $(date +%s) - T0 ))s $(tail -1 /verif/logs/tier_${TIER}_$P.out)"
done
git -C /repo worktree remove --force $WT; rm -rf $WK
